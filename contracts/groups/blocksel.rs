// Group `blocksel`: the orchestration functions of src/blocks.rs and the grammar table.
//   B6t  `try_parser_for_extension`   table lookup after the -E remapping
//   B6   `parser_for_file_path`       which grammar a file NAME gets (suffix search from the last dot
//                                     to the first, then the whole name)
//   B5   `parse_file`                 unknown name => skipped and never read; read/parse errors are
//                                     errors; the blocks kept are exactly the selected ones, with the
//                                     two modification flags of B3/B4
//   B7e  `FileBlocks::is_empty`
//   B7   `parse_blocks`               which files are examined (walk + globs, diff files, --ignore),
//                                     with which filter, for ANY iteration order of the diff map
//   C16.table  statements of `language_parsers()` (src/language_parsers/mod.rs): the registered names
// Properties: C16 (B6, B5, table), C02 (B5, B7), C12 (B5, B7), C15 (B7), C20 (B7), C04 (safety).
// Notes: contracts/groups/blocksel.notes.md
use vstd::prelude::*;
use std::collections::HashMap;
use std::ffi::OsString;
use std::ops::{Range, RangeFrom, RangeInclusive};
use std::path::PathBuf;

//@include prelude/anyhow.rs
//@include prelude/blocks_ax.rs

verus! {

broadcast use {vstd::std_specs::hash::group_hash_axioms, blocks_ax::group_blocks_ax};

//@include prelude/blocks_sel.rs

pub open spec fn opt_deref<'a>(o: Option<&'a LanguageParser>) -> Option<LanguageParser> {
    match o { Some(p) => Some(*p), None => None }
}

//@unit id=B6t file=src/blocks.rs fn=try_parser_for_extension ret=r
//@contract
    ensures
        // `remap(e) = extra.get(e).unwrap_or(e)`, then the table lookup of the remapped name
        opt_deref(r) == lookup(parsers@, extra_file_extensions@, *extension), // [B6t.post.lookup_of_remapped]
//@end

// facts proved before the loop (the reading of `first_hit`) stay visible at the `return` inside it
#[verifier::loop_isolation(false)]
//@unit id=B6 file=src/blocks.rs fn=parser_for_file_path ret=r
//@contract
    ensures
        // C16: a function of the base name, the table and the -E map: the grammar of the first
        // candidate in the order [after last '.', ..., after first '.', whole name] that maps
        opt_deref(r) == grammar_for(*file_path, parsers@, extra_file_extensions@), // [B6.post.grammar_for_name]
        r matches Some(p) ==> base_name(*file_path) is Some && exists|j: int| // [B6.post.first_mapping_candidate]
            #[trigger] first_mapping_candidate(base_name(*file_path).unwrap(), parsers@, extra_file_extensions@, j, *p),
        r is None <==> (base_name(*file_path) matches Some(name) ==> no_candidate_maps(name, parsers@, extra_file_extensions@)), // [B6.post.none_iff_no_candidate_maps]
//@edit rule=ghost before=<<for (i, _) in>>
    let ghost name = file_name@;
    let ghost dots = char_positions(name, '.');
    let ghost cands = candidates(name);
    proof {
        assert(base_name(*file_path) == Some(name));
        lemma_char_positions(name, '.');
        lemma_first_hit(cands, parsers@, extra_file_extensions@, 0);
        assert(first_hit(cands, parsers@, extra_file_extensions@, cands.len() as int) is None);
        assert(cands[dots.len() as int] == name); // the whole-name fallback is the last candidate
        if first_hit(cands, parsers@, extra_file_extensions@, 0) is Some {
            let p = first_hit(cands, parsers@, extra_file_extensions@, 0).unwrap();
            let h = choose|h: int| 0 <= h < cands.len()
                && #[trigger] lookup(parsers@, extra_file_extensions@, osstring_of(cands[h])) == Some(p)
                && (forall|l: int| 0 <= l < h ==> lookup(parsers@, extra_file_extensions@, osstring_of(#[trigger] cands[l])) is None);
            assert(first_mapping_candidate(name, parsers@, extra_file_extensions@, h, p));
        }
    }
//@edit rule=E13 find=<<$a.file_name()?.to_string_lossy()>> optional=1
verif_path_base_name_lossy($a)?
//@chain rule=E13 find=<<.file_name()?.to_str(>> to=verif_path_base_name optional=1
//@edit rule=E13 find=<<file_name.as_ref()>> optional=1
file_name.as_str()
//@chain rule=E13 find=<<.match_indices(>> to=verif_match_indices_char optional=1
//@chain rule=E13 find=<<.rev(>> to=verif_iter_rev optional=1
//@edit rule=E15 find=<<for (i, _) in>>
    for (i, _) in it:
//@edit rule=E15 before=<<{ let extension>>
        invariant
            name == file_name@ && dots == char_positions(name, '.') && cands == candidates(name),
            forall|j: int| 0 <= j < dots.len() ==> 0 <= (#[trigger] dots[j]) < name.len() && name[dots[j]] == '.',
            // the candidates tried so far (suffixes after the last dots) map to nothing
            first_hit(cands, parsers@, extra_file_extensions@, 0) == first_hit(cands, parsers@, extra_file_extensions@, it.index@ as int), // [B6.inv.earlier_candidates_map_to_nothing]
            // E13/E14: the loop visits the dots from the LAST to the FIRST
            it.seq().len() == dots.len() ==> (forall|j: int| 0 <= j < it.seq().len() ==> (#[trigger] it.seq()[j]).0 == byte_off(name, dots[dots.len() - 1 - j])), // [B6.inv.dots_visited_last_to_first]
            it.seq().len() == dots.len(),
            forall|j: int| 0 <= j < it.seq().len() ==> (#[trigger] it.seq()[j]).0 < isize::MAX,
//@edit rule=ghost before=<<let extension>>
        let ghost jj = it.index@ as int;
        let ghost k = dots[dots.len() - 1 - jj];
        proof {
            assert(i == it.seq()[jj].0);
            assert(0 <= k < name.len() && name[k] == '.');
            assert(byte_off(name, k + 1) == byte_off(name, k) + utf8_len(name[k]));
            assert(is_char_boundary(name, i + 1));
            assert(cands[jj] == name.subrange(k + 1, name.len() as int));
        }
//@edit rule=ghost before=<<if let Some(parser) = try_parser_for_extension>>
        proof {
            // the candidate tried in this round is the suffix after the jj-th dot from the right
            assert(extension@ == cands[jj]); // [B6.step.candidate_is_suffix_after_dot]
            assert(ext_os == osstring_of(cands[jj]));
        }
//@wrap rule=E13 find=<<&file_name[>> to=<<verif_str_index(file_name, >> close=<<)>>
//@edit rule=E13 find=<<OsString::from($a)>> count=all
verif_osstring_from_str($a)
//@end

//@include prelude/blocks_parse.rs

//@unit id=B5 file=src/blocks.rs fn=parse_file ret=r
//@contract
    requires
        lcs_wf(line_changes@), // [B5.pre.line_changes_wf]
        // the caller may only hand over files it is entitled to read (when they have a grammar at all)
        grammar_for(*file_path, parsers@, extra_file_extensions@) is Some ==> file_reader.may_read(*file_path), // [B5.pre.may_read_if_grammar]
    ensures
        // C16: a name that maps to no grammar is skipped (and, FS.read.pre: never read)
        grammar_for(*file_path, parsers@, extra_file_extensions@) is None ==> r matches Ok(None), // [B5.post.unknown_name_skipped]
        grammar_for(*file_path, parsers@, extra_file_extensions@) is Some && file_reader.read_spec(*file_path) is None ==> r is Err, // [B5.post.read_err_propagates]
        // C12: a parse error (unbalanced tags) is a hard error, never a silent skip
        grammar_for(*file_path, parsers@, extra_file_extensions@) is Some && file_reader.read_spec(*file_path) is Some // [B5.post.parse_err_propagates]
            && grammar_for(*file_path, parsers@, extra_file_extensions@).unwrap().parse_spec(file_reader.read_spec(*file_path).unwrap()) is None
            ==> r is Err,
        // C02: the blocks kept are, in order, exactly those the filter selects, with the two flags of B3/B4
        grammar_for(*file_path, parsers@, extra_file_extensions@) is Some && file_reader.read_spec(*file_path) is Some // [B5.post.selected_blocks_with_flags]
            && grammar_for(*file_path, parsers@, extra_file_extensions@).unwrap().parse_spec(file_reader.read_spec(*file_path).unwrap()) is Some
            ==> (r matches Ok(Some(fb)) && fb.file_content@ == file_reader.read_spec(*file_path).unwrap()
                && fb.blocks_with_context@ == select_blocks(
                    grammar_for(*file_path, parsers@, extra_file_extensions@).unwrap().parse_spec(file_reader.read_spec(*file_path).unwrap()).unwrap(),
                    line_changes@, blocks_filter)),
        // summary used by B7: the result is a function of the inputs
        outcome_of(r) == parse_file_spec(*file_path, line_changes@, blocks_filter, file_reader, parsers@, extra_file_extensions@), // [B5.post.outcome_is_function_of_inputs]
//@dropcall rule=E1 name=context optional=1
//@closure rule=E12 find=<<|block|>> params=<<|block: Block|>> ret=<<o: Option<BlockWithContext>>>
            requires
                block_wf(block),
                lcs_wf(line_changes@),
            ensures
                o == select_block(block, line_changes@, blocks_filter), // [B5.closure.keep_iff_all_or_touched]
//@edit rule=ghost before=<<let blocks_with_context>>
    let ghost bs = blocks@;
//@chain rule=E3 find=<<.into_iter().filter_map(>> to=verif_filter_map_collect suffix=<<.collect()>>
//@edit rule=ghost before=<<Ok(Some(FileBlocks>>
    proof {
        let lcs = line_changes@;
        assert(exists|outs: Seq<Option<BlockWithContext>>| outs.len() == bs.len()
            && (forall|i: int| 0 <= i < bs.len() ==> #[trigger] outs[i] == select_block(bs[i], lcs, blocks_filter))
            && blocks_with_context@ == somes(outs));
        let outs = choose|outs: Seq<Option<BlockWithContext>>| outs.len() == bs.len()
            && (forall|i: int| 0 <= i < bs.len() ==> #[trigger] outs[i] == select_block(bs[i], lcs, blocks_filter))
            && blocks_with_context@ == somes(outs);
        assert(outs =~= Seq::new(bs.len(), |i: int| select_block(bs[i], lcs, blocks_filter)));
    }
//@end

impl FileBlocks {
//@unit id=B7e file=src/blocks.rs fn=<<impl FileBlocks::is_empty>> ret=r
//@contract
        ensures r == (self.blocks_with_context@.len() == 0), // [B7e.post.empty_iff_no_blocks]
//@end
}

// ---------------------------------------------------------------------------------------------
// B7: specification of `parse_blocks`, written from the statements of C15 / C02 / C12 / C20.
//
// C15: "The files examined are every file under the root that matches a positional glob [walk ∧
// allow] ... plus every file named in the diff, minus anything matching an --ignore glob, which wins
// over both. Files outside that set never contribute blocks, diagnostics or errors."
// C02: "with a diff and no path arguments, the blocks listed are exactly those the diff touches
// [filter ModifiedOnly] ... adding path arguments additionally validates every block of the matching
// files [filter All]".

pub type Walk = Seq<anyhow::Result<PathBuf>>;

/// the directory walk yields `p` among its first `n` items, `p` matches a positional glob and no
/// --ignore glob
pub open spec fn consumed_before<PC: PathChecker>(walk: Walk, pc: &PC, p: PathBuf, n: int) -> bool {
    exists|i: int| 0 <= i < n && i < walk.len() && #[trigger] walk[i] == Ok::<PathBuf, anyhow::Error>(p)
        && pc.allow_spec(p) && !pc.ignore_spec(p)
}

/// how much of the walk is looked at: all of it with path arguments (main.rs:
/// `should_scan_files = !glob_set.is_empty()`), nothing otherwise
pub open spec fn scan_len(scan: bool, walk: Walk) -> int {
    if scan { walk.len() as int } else { 0 }
}

/// C15, first summand: `p` is under the root, matches a positional glob and is not ignored
pub open spec fn scanned<PC: PathChecker>(scan: bool, walk: Walk, pc: &PC, p: PathBuf) -> bool {
    consumed_before(walk, pc, p, scan_len(scan, walk))
}

/// C15, second summand: `p` is named in the diff, is not ignored (and is not already in the first summand)
pub open spec fn diff_only<PC: PathChecker>(scan: bool, walk: Walk, pc: &PC, lc0: Map<PathBuf, Vec<LineChange>>, p: PathBuf) -> bool {
    lc0.contains_key(p) && !scanned(scan, walk, pc, p) && !pc.ignore_spec(p)
}

/// C15: the set of files examined
pub open spec fn in_scope<PC: PathChecker>(scan: bool, walk: Walk, pc: &PC, lc0: Map<PathBuf, Vec<LineChange>>, p: PathBuf) -> bool {
    scanned(scan, walk, pc, p) || diff_only(scan, walk, pc, lc0, p)
}

/// the line changes the diff has for `p` (none if the diff does not name it)
pub open spec fn changes_of(lc0: Map<PathBuf, Vec<LineChange>>, p: PathBuf) -> Seq<LineChange> {
    if lc0.contains_key(p) { lc0[p]@ } else { Seq::empty() }
}

/// C02: a file matching a path argument has every block listed (flags from the diff, if it names the file)
pub open spec fn scan_outcome<FS: FileSystem>(p: PathBuf, lc0: Map<PathBuf, Vec<LineChange>>, fs: &FS,
    parsers: Map<OsString, LanguageParser>, extra: Map<OsString, OsString>) -> FileOutcome {
    parse_file_spec(p, changes_of(lc0, p), BlocksFilter::All, fs, parsers, extra)
}

/// C02: a file only named in the diff has exactly the touched blocks listed
pub open spec fn diff_outcome<FS: FileSystem>(p: PathBuf, lc0: Map<PathBuf, Vec<LineChange>>, fs: &FS,
    parsers: Map<OsString, LanguageParser>, extra: Map<OsString, OsString>) -> FileOutcome {
    parse_file_spec(p, lc0[p]@, BlocksFilter::ModifiedOnly, fs, parsers, extra)
}

/// what the run makes of file `p` (files out of scope: nothing)
pub open spec fn expected<FS: FileSystem, PC: PathChecker>(p: PathBuf, lc0: Map<PathBuf, Vec<LineChange>>, scan: bool, fs: &FS, pc: &PC,
    parsers: Map<OsString, LanguageParser>, extra: Map<OsString, OsString>) -> FileOutcome {
    if scanned(scan, fs.walk_spec(), pc, p) {
        scan_outcome(p, lc0, fs, parsers, extra)
    } else if diff_only(scan, fs.walk_spec(), pc, lc0, p) {
        diff_outcome(p, lc0, fs, parsers, extra)
    } else {
        FileOutcome::Skipped
    }
}

pub open spec fn nonempty(o: FileOutcome) -> bool {
    o matches FileOutcome::Parsed { content, blocks } && blocks.len() > 0
}

/// the stored `FileBlocks` is (views) the outcome
pub open spec fn holds(fb: FileBlocks, o: FileOutcome) -> bool {
    o == (FileOutcome::Parsed { content: fb.file_content@, blocks: fb.blocks_with_context@ })
}

/// Everything B7 guarantees about an `Ok` result, as one predicate over the map view.
pub open spec fn b7_ok_post<FS: FileSystem, PC: PathChecker>(res: Map<PathBuf, FileBlocks>, lc0: Map<PathBuf, Vec<LineChange>>, scan: bool, fs: &FS, pc: &PC,
    parsers: Map<OsString, LanguageParser>, extra: Map<OsString, OsString>) -> bool {
    &&& forall|p: PathBuf| #[trigger] res.contains_key(p) <==>
            in_scope(scan, fs.walk_spec(), pc, lc0, p) && nonempty(expected(p, lc0, scan, fs, pc, parsers, extra))
    &&& forall|p: PathBuf| res.contains_key(p) ==> holds(#[trigger] res[p], expected(p, lc0, scan, fs, pc, parsers, extra))
}

/// some item of the walk that is looked at is an error, or some file in scope cannot be read / parsed
pub open spec fn b7_has_failure<FS: FileSystem, PC: PathChecker>(lc0: Map<PathBuf, Vec<LineChange>>, scan: bool, fs: &FS, pc: &PC,
    parsers: Map<OsString, LanguageParser>, extra: Map<OsString, OsString>) -> bool {
    ||| exists|i: int| 0 <= i < scan_len(scan, fs.walk_spec()) && (#[trigger] fs.walk_spec()[i]) is Err
    ||| exists|p: PathBuf| in_scope(scan, fs.walk_spec(), pc, lc0, p) && (#[trigger] expected(p, lc0, scan, fs, pc, parsers, extra)) is Fails
}

/// T-ext precondition: a directory walk yields every file at most once
pub open spec fn walk_distinct(walk: Walk) -> bool {
    forall|i: int, j: int| 0 <= i < j < walk.len() && (#[trigger] walk[i]) is Ok && (#[trigger] walk[j]) is Ok ==> walk[i]->Ok_0 != walk[j]->Ok_0
}

/// C20 (order independence of B7). `parse_blocks` is proved for an ARBITRARY iteration order of the
/// diff's hash map (E4: the ghost sequence of `verif_map_into_iter` is only known to enumerate the
/// map), so two runs that differ in hash seeds, or in the order the diff lists its files, both
/// satisfy `b7_ok_post`. This lemma shows that `b7_ok_post` leaves no freedom: same files, and per
/// file the same content and the same blocks with the same flags. (The walk ORDER does not occur in
/// `b7_ok_post` either: `scanned` is an `exists` over walk positions.)
pub proof fn lemma_b7_order_independent<FS: FileSystem, PC: PathChecker>(res1: Map<PathBuf, FileBlocks>, res2: Map<PathBuf, FileBlocks>,
    lc0: Map<PathBuf, Vec<LineChange>>, scan: bool, fs: &FS, pc: &PC, parsers: Map<OsString, LanguageParser>, extra: Map<OsString, OsString>)
    requires
        b7_ok_post(res1, lc0, scan, fs, pc, parsers, extra),
        b7_ok_post(res2, lc0, scan, fs, pc, parsers, extra),
    ensures
        res1.dom() =~= res2.dom(), // [B7.post.order_independent]
        forall|p: PathBuf| res1.contains_key(p) ==> (#[trigger] res1[p]).file_content@ == res2[p].file_content@
            && res1[p].blocks_with_context@ == res2[p].blocks_with_context@,
{
    assert forall|p: PathBuf| res1.dom().contains(p) <==> res2.dom().contains(p) by {
        assert(res1.contains_key(p) <==> res2.contains_key(p));
    }
    assert forall|p: PathBuf| res1.contains_key(p) implies (#[trigger] res1[p]).file_content@ == res2[p].file_content@
        && res1[p].blocks_with_context@ == res2[p].blocks_with_context@ by {
        assert(res2.contains_key(p));
        assert(holds(res1[p], expected(p, lc0, scan, fs, pc, parsers, extra)));
        assert(holds(res2[p], expected(p, lc0, scan, fs, pc, parsers, extra)));
    }
}

// ---- loop invariants of B7 as predicates ------------------------------------------------------------
// The three predicates are opaque in `parse_blocks` itself; every step of the two loops is a lemma
// below (keeps the verification condition of the 60-line function small and its failures local).

/// first loop, diff map: a diff file is still pending iff the walk has not consumed it (a walked file
/// that is NOT allowed, or ignored, stays pending: C15 "plus every file named in the diff")
#[verifier::opaque]
pub open spec fn inv1_map<PC: PathChecker>(m: Map<PathBuf, Vec<LineChange>>, lc0: Map<PathBuf, Vec<LineChange>>, walk: Walk, pc: &PC, n: int) -> bool {
    &&& forall|p: PathBuf| #[trigger] m.contains_key(p) <==> lc0.contains_key(p) && !consumed_before(walk, pc, p, n)
    &&& forall|p: PathBuf| m.contains_key(p) ==> #[trigger] m[p] == lc0[p]
}

/// first loop, result: exactly the consumed files with at least one block, each with its `All`
/// outcome; no consumed file failed; no walk item so far was an error
#[verifier::opaque]
pub open spec fn inv1_res<FS: FileSystem, PC: PathChecker>(res: Map<PathBuf, FileBlocks>, lc0: Map<PathBuf, Vec<LineChange>>, fs: &FS, pc: &PC,
    parsers: Map<OsString, LanguageParser>, extra: Map<OsString, OsString>, n: int) -> bool {
    &&& forall|p: PathBuf| #[trigger] res.contains_key(p) <==>
            consumed_before(fs.walk_spec(), pc, p, n) && nonempty(scan_outcome(p, lc0, fs, parsers, extra))
    &&& forall|p: PathBuf| res.contains_key(p) ==> holds(#[trigger] res[p], scan_outcome(p, lc0, fs, parsers, extra))
    &&& forall|p: PathBuf| #[trigger] consumed_before(fs.walk_spec(), pc, p, n) ==> !(scan_outcome(p, lc0, fs, parsers, extra) is Fails)
    &&& forall|i: int| 0 <= i < n && i < fs.walk_spec().len() ==> (#[trigger] fs.walk_spec()[i]) is Ok
}

/// `p` is one of the first `k` entries of the (arbitrarily ordered) pending diff files
pub open spec fn visited(ents: Seq<(PathBuf, Vec<LineChange>)>, p: PathBuf, k: int) -> bool {
    exists|j: int| 0 <= j < k && j < ents.len() && (#[trigger] ents[j]).0 == p
}

/// second loop, result
#[verifier::opaque]
pub open spec fn inv2_res<FS: FileSystem, PC: PathChecker>(res: Map<PathBuf, FileBlocks>, ents: Seq<(PathBuf, Vec<LineChange>)>, k: int,
    lc0: Map<PathBuf, Vec<LineChange>>, scan: bool, fs: &FS, pc: &PC, parsers: Map<OsString, LanguageParser>, extra: Map<OsString, OsString>) -> bool {
    &&& forall|p: PathBuf| #[trigger] res.contains_key(p) <==>
            (scanned(scan, fs.walk_spec(), pc, p) && nonempty(scan_outcome(p, lc0, fs, parsers, extra)))
            || (visited(ents, p, k) && !pc.ignore_spec(p) && nonempty(diff_outcome(p, lc0, fs, parsers, extra)))
    &&& forall|p: PathBuf| res.contains_key(p) ==> holds(#[trigger] res[p], expected(p, lc0, scan, fs, pc, parsers, extra))
    &&& forall|p: PathBuf| #[trigger] visited(ents, p, k) && !pc.ignore_spec(p) ==> !(diff_outcome(p, lc0, fs, parsers, extra) is Fails)
}

/// `blocks.insert(path, file_blocks)` iff `parse_file` returned `Some` and the file has a listed block
pub open spec fn store(res: Map<PathBuf, FileBlocks>, p: PathBuf, fbo: Option<FileBlocks>) -> Map<PathBuf, FileBlocks> {
    if fbo is Some && fbo.unwrap().blocks_with_context@.len() > 0 { res.insert(p, fbo.unwrap()) } else { res }
}

proof fn lemma_consumed_step<PC: PathChecker>(walk: Walk, pc: &PC, n: int)
    requires 0 <= n < walk.len(),
    ensures
        forall|p: PathBuf| #[trigger] consumed_before(walk, pc, p, n + 1) <==>
            consumed_before(walk, pc, p, n) || (walk[n] == Ok::<PathBuf, anyhow::Error>(p) && pc.allow_spec(p) && !pc.ignore_spec(p)),
        forall|p: PathBuf| consumed_before(walk, pc, p, n + 1) ==> #[trigger] consumed_before(walk, pc, p, walk.len() as int),
{
    assert forall|p: PathBuf| #[trigger] consumed_before(walk, pc, p, n + 1) implies
        consumed_before(walk, pc, p, n) || (walk[n] == Ok::<PathBuf, anyhow::Error>(p) && pc.allow_spec(p) && !pc.ignore_spec(p)) by {
        let i = choose|i: int| 0 <= i < n + 1 && i < walk.len() && #[trigger] walk[i] == Ok::<PathBuf, anyhow::Error>(p) && pc.allow_spec(p) && !pc.ignore_spec(p);
        if i < n { assert(consumed_before(walk, pc, p, n)); }
    }
    assert forall|p: PathBuf| consumed_before(walk, pc, p, n) || (walk[n] == Ok::<PathBuf, anyhow::Error>(p) && pc.allow_spec(p) && !pc.ignore_spec(p))
        implies #[trigger] consumed_before(walk, pc, p, n + 1) by {
        if consumed_before(walk, pc, p, n) {
            let i = choose|i: int| 0 <= i < n && i < walk.len() && #[trigger] walk[i] == Ok::<PathBuf, anyhow::Error>(p) && pc.allow_spec(p) && !pc.ignore_spec(p);
            assert(walk[i] == Ok::<PathBuf, anyhow::Error>(p));
        } else {
            assert(walk[n] == Ok::<PathBuf, anyhow::Error>(p));
        }
    }
    assert forall|p: PathBuf| consumed_before(walk, pc, p, n + 1) implies #[trigger] consumed_before(walk, pc, p, walk.len() as int) by {
        let i = choose|i: int| 0 <= i < n + 1 && i < walk.len() && #[trigger] walk[i] == Ok::<PathBuf, anyhow::Error>(p) && pc.allow_spec(p) && !pc.ignore_spec(p);
        assert(walk[i] == Ok::<PathBuf, anyhow::Error>(p));
    }
}

/// a distinct walk has not consumed the path it yields at position `n` before
proof fn lemma_not_consumed_yet<PC: PathChecker>(walk: Walk, pc: &PC, n: int, p: PathBuf)
    requires 0 <= n < walk.len(), walk_distinct(walk), walk[n] == Ok::<PathBuf, anyhow::Error>(p),
    ensures !consumed_before(walk, pc, p, n),
{
    if consumed_before(walk, pc, p, n) {
        let i = choose|i: int| 0 <= i < n && i < walk.len() && #[trigger] walk[i] == Ok::<PathBuf, anyhow::Error>(p) && pc.allow_spec(p) && !pc.ignore_spec(p);
        assert(walk[i] is Ok && walk[n] is Ok);
    }
}

proof fn lemma_visited_step(ents: Seq<(PathBuf, Vec<LineChange>)>, k: int)
    requires 0 <= k < ents.len(),
    ensures
        forall|p: PathBuf| #[trigger] visited(ents, p, k + 1) <==> visited(ents, p, k) || ents[k].0 == p,
{
    assert forall|p: PathBuf| #[trigger] visited(ents, p, k + 1) implies visited(ents, p, k) || ents[k].0 == p by {
        let j = choose|j: int| 0 <= j < k + 1 && j < ents.len() && (#[trigger] ents[j]).0 == p;
        if j < k { assert(visited(ents, p, k)); }
    }
    assert forall|p: PathBuf| visited(ents, p, k) || ents[k].0 == p implies #[trigger] visited(ents, p, k + 1) by {
        if visited(ents, p, k) {
            let j = choose|j: int| 0 <= j < k && j < ents.len() && (#[trigger] ents[j]).0 == p;
            assert(ents[j].0 == p);
        } else {
            assert(ents[k].0 == p);
        }
    }
}

/// once every pending diff file has been visited: visited = still pending after the walk
proof fn lemma_visited_all(ents: Seq<(PathBuf, Vec<LineChange>)>, m: Map<PathBuf, Vec<LineChange>>)
    requires blocks_entries(ents, m),
    ensures forall|p: PathBuf| #[trigger] visited(ents, p, ents.len() as int) <==> m.contains_key(p),
{
    assert forall|p: PathBuf| #[trigger] visited(ents, p, ents.len() as int) implies m.contains_key(p) by {
        let j = choose|j: int| 0 <= j < ents.len() && j < ents.len() && (#[trigger] ents[j]).0 == p;
        assert(m.contains_key(ents[j].0));
    }
    assert forall|p: PathBuf| m.contains_key(p) implies #[trigger] visited(ents, p, ents.len() as int) by {
        let i = choose|i: int| 0 <= i < ents.len() && (#[trigger] ents[i]).0 == p;
        assert(ents[i].0 == p);
    }
}

/// before the walk: nothing consumed, nothing stored
proof fn lemma_b7_init<FS: FileSystem, PC: PathChecker>(lc0: Map<PathBuf, Vec<LineChange>>, fs: &FS, pc: &PC,
    parsers: Map<OsString, LanguageParser>, extra: Map<OsString, OsString>)
    ensures
        inv1_map(lc0, lc0, fs.walk_spec(), pc, 0),
        inv1_res(Map::<PathBuf, FileBlocks>::empty(), lc0, fs, pc, parsers, extra, 0),
{
    reveal(inv1_map);
    reveal(inv1_res);
}

/// first loop, a walked file that is not allowed or is ignored: nothing changes — in particular it
/// stays in the diff map (the seeded fault C02-3 removes it there)
proof fn lemma_b7_step1_skip<FS: FileSystem, PC: PathChecker>(m: Map<PathBuf, Vec<LineChange>>, res: Map<PathBuf, FileBlocks>, lc0: Map<PathBuf, Vec<LineChange>>,
    fs: &FS, pc: &PC, parsers: Map<OsString, LanguageParser>, extra: Map<OsString, OsString>, n: int, fp: PathBuf)
    requires
        0 <= n < fs.walk_spec().len(),
        fs.walk_spec()[n] == Ok::<PathBuf, anyhow::Error>(fp),
        !pc.allow_spec(fp) || pc.ignore_spec(fp),
        inv1_map(m, lc0, fs.walk_spec(), pc, n),
        inv1_res(res, lc0, fs, pc, parsers, extra, n),
    ensures
        inv1_map(m, lc0, fs.walk_spec(), pc, n + 1),
        inv1_res(res, lc0, fs, pc, parsers, extra, n + 1),
{
    reveal(inv1_map);
    reveal(inv1_res);
    lemma_consumed_step(fs.walk_spec(), pc, n);
    assert forall|p: PathBuf| consumed_before(fs.walk_spec(), pc, p, n + 1) <==> consumed_before(fs.walk_spec(), pc, p, n) by {}
}

/// first loop, a walked file that is allowed and not ignored, before `parse_file`
proof fn lemma_b7_step1_pre<FS: FileSystem, PC: PathChecker>(m: Map<PathBuf, Vec<LineChange>>, lc0: Map<PathBuf, Vec<LineChange>>, scan: bool,
    fs: &FS, pc: &PC, parsers: Map<OsString, LanguageParser>, extra: Map<OsString, OsString>, n: int, fp: PathBuf)
    requires
        scan,
        0 <= n < fs.walk_spec().len(),
        walk_distinct(fs.walk_spec()),
        fs.walk_spec()[n] == Ok::<PathBuf, anyhow::Error>(fp),
        pc.allow_spec(fp) && !pc.ignore_spec(fp),
        inv1_map(m, lc0, fs.walk_spec(), pc, n),
    ensures
        m.contains_key(fp) <==> lc0.contains_key(fp),
        m.contains_key(fp) ==> m[fp] == lc0[fp],
        scanned(scan, fs.walk_spec(), pc, fp),
        in_scope(scan, fs.walk_spec(), pc, lc0, fp),
        expected(fp, lc0, scan, fs, pc, parsers, extra) == scan_outcome(fp, lc0, fs, parsers, extra),
{
    reveal(inv1_map);
    lemma_not_consumed_yet(fs.walk_spec(), pc, n, fp);
    lemma_consumed_step(fs.walk_spec(), pc, n);
    assert(consumed_before(fs.walk_spec(), pc, fp, n + 1));
}

/// first loop, after `parse_file` succeeded on a consumed file
proof fn lemma_b7_step1_parse<FS: FileSystem, PC: PathChecker>(m: Map<PathBuf, Vec<LineChange>>, res: Map<PathBuf, FileBlocks>, lc0: Map<PathBuf, Vec<LineChange>>,
    fs: &FS, pc: &PC, parsers: Map<OsString, LanguageParser>, extra: Map<OsString, OsString>, n: int, fp: PathBuf, fbo: Option<FileBlocks>)
    requires
        0 <= n < fs.walk_spec().len(),
        walk_distinct(fs.walk_spec()),
        fs.walk_spec()[n] == Ok::<PathBuf, anyhow::Error>(fp),
        pc.allow_spec(fp) && !pc.ignore_spec(fp),
        inv1_map(m, lc0, fs.walk_spec(), pc, n),
        inv1_res(res, lc0, fs, pc, parsers, extra, n),
        outcome_of(Ok(fbo)) == scan_outcome(fp, lc0, fs, parsers, extra),
    ensures
        inv1_map(m.remove(fp), lc0, fs.walk_spec(), pc, n + 1),
        inv1_res(store(res, fp, fbo), lc0, fs, pc, parsers, extra, n + 1),
{
    reveal(inv1_map);
    reveal(inv1_res);
    let walk = fs.walk_spec();
    lemma_not_consumed_yet(walk, pc, n, fp);
    lemma_consumed_step(walk, pc, n);
    let res2 = store(res, fp, fbo);
    assert forall|p: PathBuf| #[trigger] res2.contains_key(p) <==>
        consumed_before(walk, pc, p, n + 1) && nonempty(scan_outcome(p, lc0, fs, parsers, extra)) by {
        if p != fp { assert(res2.contains_key(p) <==> res.contains_key(p)); }
    }
    assert forall|p: PathBuf| res2.contains_key(p) implies holds(#[trigger] res2[p], scan_outcome(p, lc0, fs, parsers, extra)) by {
        if p != fp { assert(res.contains_key(p)); assert(res2[p] == res[p]); }
    }
    let m2 = m.remove(fp);
    assert forall|p: PathBuf| #[trigger] m2.contains_key(p) <==> lc0.contains_key(p) && !consumed_before(walk, pc, p, n + 1) by {
        if p != fp { assert(m2.contains_key(p) <==> m.contains_key(p)); }
    }
    assert forall|p: PathBuf| m2.contains_key(p) implies #[trigger] m2[p] == lc0[p] by {
        assert(m.contains_key(p));
    }
}

/// between the loops
proof fn lemma_b7_between<FS: FileSystem, PC: PathChecker>(m1: Map<PathBuf, Vec<LineChange>>, res: Map<PathBuf, FileBlocks>, ents: Seq<(PathBuf, Vec<LineChange>)>,
    lc0: Map<PathBuf, Vec<LineChange>>, scan: bool, fs: &FS, pc: &PC, parsers: Map<OsString, LanguageParser>, extra: Map<OsString, OsString>)
    requires
        inv1_res(res, lc0, fs, pc, parsers, extra, scan_len(scan, fs.walk_spec())),
    ensures
        inv2_res(res, ents, 0, lc0, scan, fs, pc, parsers, extra),
{
    reveal(inv1_res);
    reveal(inv2_res);
    assert forall|p: PathBuf| !visited(ents, p, 0) by {}
}

/// second loop: what is known about the entry visited now
proof fn lemma_b7_step2_pre<FS: FileSystem, PC: PathChecker>(m1: Map<PathBuf, Vec<LineChange>>, ents: Seq<(PathBuf, Vec<LineChange>)>, k: int,
    lc0: Map<PathBuf, Vec<LineChange>>, scan: bool, fs: &FS, pc: &PC, parsers: Map<OsString, LanguageParser>, extra: Map<OsString, OsString>)
    requires
        0 <= k < ents.len(),
        blocks_entries(ents, m1),
        inv1_map(m1, lc0, fs.walk_spec(), pc, scan_len(scan, fs.walk_spec())),
    ensures
        lc0.contains_key(ents[k].0) && lc0[ents[k].0] == ents[k].1,
        !scanned(scan, fs.walk_spec(), pc, ents[k].0),
        !pc.ignore_spec(ents[k].0) ==> in_scope(scan, fs.walk_spec(), pc, lc0, ents[k].0)
            && expected(ents[k].0, lc0, scan, fs, pc, parsers, extra) == diff_outcome(ents[k].0, lc0, fs, parsers, extra),
{
    reveal(inv1_map);
    assert(m1.contains_key(ents[k].0) && m1[ents[k].0] == ents[k].1);
}

/// second loop, an ignored diff file: nothing stored (C15: --ignore wins over the diff too)
proof fn lemma_b7_step2_skip<FS: FileSystem, PC: PathChecker>(res: Map<PathBuf, FileBlocks>, ents: Seq<(PathBuf, Vec<LineChange>)>, k: int,
    lc0: Map<PathBuf, Vec<LineChange>>, scan: bool, fs: &FS, pc: &PC, parsers: Map<OsString, LanguageParser>, extra: Map<OsString, OsString>)
    requires
        0 <= k < ents.len(),
        pc.ignore_spec(ents[k].0),
        inv2_res(res, ents, k, lc0, scan, fs, pc, parsers, extra),
    ensures
        inv2_res(res, ents, k + 1, lc0, scan, fs, pc, parsers, extra),
{
    reveal(inv2_res);
    lemma_visited_step(ents, k);
}

/// second loop, after `parse_file` succeeded on a pending diff file that is not ignored
proof fn lemma_b7_step2_parse<FS: FileSystem, PC: PathChecker>(m1: Map<PathBuf, Vec<LineChange>>, res: Map<PathBuf, FileBlocks>, ents: Seq<(PathBuf, Vec<LineChange>)>, k: int,
    lc0: Map<PathBuf, Vec<LineChange>>, scan: bool, fs: &FS, pc: &PC, parsers: Map<OsString, LanguageParser>, extra: Map<OsString, OsString>, fbo: Option<FileBlocks>)
    requires
        0 <= k < ents.len(),
        blocks_entries(ents, m1),
        inv1_map(m1, lc0, fs.walk_spec(), pc, scan_len(scan, fs.walk_spec())),
        !pc.ignore_spec(ents[k].0),
        inv2_res(res, ents, k, lc0, scan, fs, pc, parsers, extra),
        outcome_of(Ok(fbo)) == diff_outcome(ents[k].0, lc0, fs, parsers, extra),
    ensures
        inv2_res(store(res, ents[k].0, fbo), ents, k + 1, lc0, scan, fs, pc, parsers, extra),
{
    reveal(inv2_res);
    let fp = ents[k].0;
    lemma_b7_step2_pre(m1, ents, k, lc0, scan, fs, pc, parsers, extra);
    lemma_visited_step(ents, k);
    // `fp` was not visited before (the entries have distinct keys) and is not a scanned file
    assert(!visited(ents, fp, k)) by {
        if visited(ents, fp, k) {
            let j = choose|j: int| 0 <= j < k && j < ents.len() && (#[trigger] ents[j]).0 == fp;
            assert(ents[j].0 != ents[k].0);
        }
    }
    let res2 = store(res, fp, fbo);
    assert forall|p: PathBuf| #[trigger] res2.contains_key(p) <==>
        (scanned(scan, fs.walk_spec(), pc, p) && nonempty(scan_outcome(p, lc0, fs, parsers, extra)))
        || (visited(ents, p, k + 1) && !pc.ignore_spec(p) && nonempty(diff_outcome(p, lc0, fs, parsers, extra))) by {
        if p != fp { assert(res2.contains_key(p) <==> res.contains_key(p)); }
    }
    assert forall|p: PathBuf| res2.contains_key(p) implies holds(#[trigger] res2[p], expected(p, lc0, scan, fs, pc, parsers, extra)) by {
        if p != fp { assert(res.contains_key(p)); assert(res2[p] == res[p]); }
    }
}

/// after both loops
proof fn lemma_b7_final<FS: FileSystem, PC: PathChecker>(m1: Map<PathBuf, Vec<LineChange>>, res1: Map<PathBuf, FileBlocks>, res: Map<PathBuf, FileBlocks>,
    ents: Seq<(PathBuf, Vec<LineChange>)>, lc0: Map<PathBuf, Vec<LineChange>>, scan: bool, fs: &FS, pc: &PC,
    parsers: Map<OsString, LanguageParser>, extra: Map<OsString, OsString>)
    requires
        blocks_entries(ents, m1),
        inv1_map(m1, lc0, fs.walk_spec(), pc, scan_len(scan, fs.walk_spec())),
        inv1_res(res1, lc0, fs, pc, parsers, extra, scan_len(scan, fs.walk_spec())),
        inv2_res(res, ents, ents.len() as int, lc0, scan, fs, pc, parsers, extra),
    ensures
        b7_ok_post(res, lc0, scan, fs, pc, parsers, extra),
        !b7_has_failure(lc0, scan, fs, pc, parsers, extra),
{
    reveal(inv1_map);
    reveal(inv1_res);
    reveal(inv2_res);
    lemma_visited_all(ents, m1);
    let walk = fs.walk_spec();
    assert forall|p: PathBuf| visited(ents, p, ents.len() as int) && !pc.ignore_spec(p) <==> diff_only(scan, walk, pc, lc0, p) by {
        assert(visited(ents, p, ents.len() as int) <==> m1.contains_key(p));
    }
    assert forall|p: PathBuf| #[trigger] res.contains_key(p) <==>
        in_scope(scan, walk, pc, lc0, p) && nonempty(expected(p, lc0, scan, fs, pc, parsers, extra)) by {
        assert(visited(ents, p, ents.len() as int) && !pc.ignore_spec(p) <==> diff_only(scan, walk, pc, lc0, p));
    }
    assert forall|p: PathBuf| in_scope(scan, walk, pc, lc0, p) implies
        !((#[trigger] expected(p, lc0, scan, fs, pc, parsers, extra)) is Fails) by {
        assert(visited(ents, p, ents.len() as int) && !pc.ignore_spec(p) <==> diff_only(scan, walk, pc, lc0, p));
    }
}

#[verifier::loop_isolation(false)]
//@unit id=B7 file=src/blocks.rs fn=parse_blocks ret=r
//@contract
    requires
        // the line changes of every diff file are well formed (D-b / D-c, groups difflines, diffranges)
        forall|p: PathBuf| line_changes_by_file@.contains_key(p) ==> lcs_wf(#[trigger] line_changes_by_file@[p]@), // [B7.pre.line_changes_wf]
        walk_distinct(file_system.walk_spec()), // [B7.pre.walk_yields_each_file_once]
        // permission to read is granted for the files in scope (that have a grammar) ONLY: whatever
        // else is read would violate FS.read.pre (C15: "files outside that set never contribute ... errors")
        forall|p: PathBuf| in_scope(should_scan_files, file_system.walk_spec(), path_checker, line_changes_by_file@, p)
            && grammar_for(p, parsers@, extra_file_extensions@) is Some ==> #[trigger] file_system.may_read(p), // [B7.pre.may_read_in_scope_only]
    ensures
        // C15 + C02: the keys are exactly the files in scope that have at least one listed block; the
        // value is what `parse_file` makes of the file: every block for files matching a path argument,
        // the touched blocks for files only named in the diff
        r matches Ok(res) ==> b7_ok_post(res@, line_changes_by_file@, should_scan_files, file_system, path_checker, parsers@, extra_file_extensions@), // [B7.post.exactly_files_in_scope]
        r matches Ok(res) ==> forall|p: PathBuf| #[trigger] res@.contains_key(p) && scanned(should_scan_files, file_system.walk_spec(), path_checker, p) // [B7.post.glob_files_list_all_blocks]
            ==> holds(res@[p], scan_outcome(p, line_changes_by_file@, file_system, parsers@, extra_file_extensions@)),
        r matches Ok(res) ==> forall|p: PathBuf| #[trigger] res@.contains_key(p) && !scanned(should_scan_files, file_system.walk_spec(), path_checker, p) // [B7.post.diff_files_list_touched_blocks]
            ==> line_changes_by_file@.contains_key(p) && holds(res@[p], diff_outcome(p, line_changes_by_file@, file_system, parsers@, extra_file_extensions@)),
        // C15: --ignore wins over both
        r matches Ok(res) ==> forall|p: PathBuf| path_checker.ignore_spec(p) ==> !(#[trigger] res@.contains_key(p)), // [B7.post.ignore_wins]
        // C15: a diff file is in scope regardless of the globs — also when the walk meets it and skips it
        r matches Ok(res) ==> forall|p: PathBuf| line_changes_by_file@.contains_key(p) && !path_checker.ignore_spec(p) && !path_checker.allow_spec(p) // [B7.post.diff_file_outside_globs_in_scope]
            && nonempty(diff_outcome(p, line_changes_by_file@, file_system, parsers@, extra_file_extensions@)) ==> #[trigger] res@.contains_key(p),
        // C12: a file in scope that fails to parse (or to be read), or a failing walk, is a hard error
        r is Ok ==> !b7_has_failure(line_changes_by_file@, should_scan_files, file_system, path_checker, parsers@, extra_file_extensions@), // [B7.post.parse_err_propagates]
        // ... and an error is never invented (C15: files out of scope contribute no errors)
        r is Err ==> b7_has_failure(line_changes_by_file@, should_scan_files, file_system, path_checker, parsers@, extra_file_extensions@), // [B7.post.err_only_from_files_in_scope]
//@edit rule=E16 find=<<let mut blocks = HashMap::new();>> optional=1
    let mut blocks: HashMap<PathBuf, FileBlocks> = HashMap::new();
//@forin rule=E14 find=<<for result in file_system.walk()>> var=verif_walk
        invariant
            0 <= n <= walk.len(),
            verif_walk.pending() == walk.skip(n), // [B7.inv1.cursor]
            inv1_map(line_changes_by_file@, lc0, walk, path_checker, n), // [B7.inv1.unconsumed_diff_files_stay_pending]
            inv1_res(blocks@, lc0, file_system, path_checker, parsers@, extra_file_extensions@, n), // [B7.inv1.result_is_consumed_files]
        decreases walk.len() - n, // [B7.term.walk_loop]
//@forin rule=E4 find=<<for (file_path, line_changes) in line_changes_by_file>> var=verif_diff_files to=verif_map_into_iter
        invariant
            0 <= k <= ents.len(),
            verif_diff_files.pending() == ents.skip(k), // [B7.inv2.cursor]
            inv2_res(blocks@, ents, k, lc0, should_scan_files, file_system, path_checker, parsers@, extra_file_extensions@), // [B7.inv2.result]
        decreases ents.len() - k, // [B7.term.diff_loop]
//@edit rule=ghost before=<<let mut blocks>>
    let ghost lc0 = line_changes_by_file@;
    let ghost walk = file_system.walk_spec();
    let ghost mut n: int = 0;
    let ghost mut k: int = 0;
    proof { lemma_b7_init(lc0, file_system, path_checker, parsers@, extra_file_extensions@); }
//@edit rule=ghost after=<<match verif_walk.next() { Some(result) => {>>
            let ghost n0 = n;
            let ghost m0 = line_changes_by_file@;
            let ghost res0 = blocks@;
            proof {
                assert(walk.skip(n0)[0] == walk[n0]);
                assert(walk.skip(n0).skip(1) =~= walk.skip(n0 + 1));
                n = n + 1;
            }
//@edit rule=ghost before=<<continue;>> nth=0 of=2
                        proof {
                            // a walked file that does not match the globs (or is ignored) is left alone: in
                            // particular it stays in the diff map and is parsed by the second loop (C15)
                            assert(line_changes_by_file@ == m0); // [B7.step1.skipped_file_stays_in_diff_map]
                            assert(!path_checker.allow_spec(file_path) || path_checker.ignore_spec(file_path)); // [B7.step1.skip_iff_not_allowed_or_ignored]
                            lemma_b7_step1_skip(m0, res0, lc0, file_system, path_checker, parsers@, extra_file_extensions@, n0, file_path);
                        }
//@edit rule=ghost before=<<let file_blocks_opt>> nth=0 of=2
                    proof {
                        assert(path_checker.allow_spec(file_path) && !path_checker.ignore_spec(file_path)); // [B7.step1.parsed_file_allowed_and_not_ignored]
                        lemma_b7_step1_pre(m0, lc0, should_scan_files, file_system, path_checker, parsers@, extra_file_extensions@, n0, file_path);
                        assert(line_changes_by_file@ == m0.remove(file_path)); // [B7.step1.consumed_file_leaves_diff_map]
                        assert(line_changes@ == changes_of(lc0, file_path)); // [B7.step1.flags_from_this_files_diff]
                    }
//@edit rule=ghost before=<<if let Some(file_blocks) = file_blocks_opt>> nth=0 of=2
                    let ghost fbo = file_blocks_opt;
                    proof {
                        assert(outcome_of(Ok(fbo)) == scan_outcome(file_path, lc0, file_system, parsers@, extra_file_extensions@)); // [B7.step1.parse_file_all_result_kept]
                    }
//@edit rule=ghost before=<<} Err(err) => {>>
                    proof {
                        assert(blocks@ == store(res0, file_path, fbo)); // [B7.step1.stored_iff_some_and_nonempty]
                        lemma_b7_step1_parse(m0, res0, lc0, file_system, path_checker, parsers@, extra_file_extensions@, n0, file_path, fbo);
                    }
//@edit rule=ghost before=<<let mut verif_diff_files>>
    let ghost m1 = line_changes_by_file@;
    let ghost res1 = blocks@;
    proof {
        // the walk loop only ends when the walk is exhausted (`break` on `None`)
        assert(n == scan_len(should_scan_files, walk)); // [B7.proof.walk_exhausted]
    }
//@edit rule=ghost after=<<let mut verif_diff_files = verif_map_into_iter(line_changes_by_file);>>
    let ghost ents = verif_diff_files.pending();
    proof {
        assert(blocks_entries(ents, m1));
        assert(ents.skip(0) =~= ents);
        lemma_b7_between(m1, res1, ents, lc0, should_scan_files, file_system, path_checker, parsers@, extra_file_extensions@);
    }
//@edit rule=ghost after=<<match verif_diff_files.next() { Some((file_path, line_changes)) => {>>
        let ghost k0 = k;
        let ghost res0 = blocks@;
        proof {
            assert(ents.skip(k0)[0] == ents[k0]);
            assert(ents.skip(k0).skip(1) =~= ents.skip(k0 + 1));
            k = k + 1;
            lemma_b7_step2_pre(m1, ents, k0, lc0, should_scan_files, file_system, path_checker, parsers@, extra_file_extensions@);
        }
//@edit rule=ghost before=<<continue;>> nth=1 of=2
            proof {
                assert(path_checker.ignore_spec(file_path)); // [B7.step2.skip_iff_ignored]
                lemma_b7_step2_skip(res0, ents, k0, lc0, should_scan_files, file_system, path_checker, parsers@, extra_file_extensions@);
            }
//@edit rule=ghost before=<<let file_blocks_opt>> nth=1 of=2
        proof {
            assert(!path_checker.ignore_spec(file_path)); // [B7.step2.ignore_wins_over_diff]
        }
//@edit rule=ghost before=<<if let Some(file_blocks) = file_blocks_opt>> nth=1 of=2
        let ghost fbo = file_blocks_opt;
        proof {
            assert(outcome_of(Ok(fbo)) == diff_outcome(file_path, lc0, file_system, parsers@, extra_file_extensions@)); // [B7.step2.parse_file_modified_only_result_kept]
        }
//@edit rule=ghost before=<<} None => { break; } } } Ok(blocks)>>
        proof {
            assert(blocks@ == store(res0, file_path, fbo)); // [B7.step2.stored_iff_some_and_nonempty]
            lemma_b7_step2_parse(m1, res0, ents, k0, lc0, should_scan_files, file_system, path_checker, parsers@, extra_file_extensions@, fbo);
        }
//@edit rule=ghost before=<<Ok(blocks)>>
    proof {
        assert(k == ents.len()); // [B7.proof.diff_files_exhausted]
        lemma_b7_final(m1, res1, blocks@, ents, lc0, should_scan_files, file_system, path_checker, parsers@, extra_file_extensions@);
    }
//@letchain rule=E8 find=<<if let Some(file_blocks) = file_blocks_opt &&>> count=all
//@chain rule=E13 find=<<.as_deref(>> to=verif_opt_vec_as_deref recvprefix=<<&>> optional=1
//@chain rule=E13 find=<<.as_path(>> to=verif_as_path recvprefix=<<&>> count=all
//@macro rule=E1 name=anyhow to=<<anyhow::verif_err()>> optional=1
//@end

// ---------------------------------------------------------------------------------------------
// C16: the grammar table. The statements of `language_parsers()` (src/language_parsers/mod.rs) from
// the first grammar construction to the `Ok(HashMap::from([...]))` are pasted and verified against the
// names the property lists.
//@include prelude/blocks_table.rs

/// extension / file name `key` is registered with grammar `g`
pub open spec fn registered(m: Map<OsString, LanguageParser>, key: Seq<char>, g: Seq<char>) -> bool {
    m.contains_key(osstring_of(key)) && m[osstring_of(key)].grammar() == g
}

pub open spec fn unregistered(m: Map<OsString, LanguageParser>, key: Seq<char>) -> bool {
    !m.contains_key(osstring_of(key))
}

/// C16: "... the grammar registered for its file name's extension - including compound ones such as
/// `.d.ts`, `go.mod`, `go.sum`, `go.work` and the extension-less `Makefile`/`makefile`"; the negative
/// entries are what makes `go.mod` resolve through its whole name and `x.rs.bak` through nothing.
pub open spec fn c16_table(m: Map<OsString, LanguageParser>) -> bool {
    &&& registered(m, "ts"@, "typescript"@) && registered(m, "d.ts"@, "typescript"@)
    &&& registered(m, "go"@, "go"@) && registered(m, "go.mod"@, "go"@) && registered(m, "go.sum"@, "go"@) && registered(m, "go.work"@, "go"@)
    &&& registered(m, "Makefile"@, "makefile"@) && registered(m, "makefile"@, "makefile"@)
    &&& registered(m, "rs"@, "rust"@)
    &&& unregistered(m, "mod"@) && unregistered(m, "sum"@) && unregistered(m, "work"@)
    &&& unregistered(m, "bak"@) && unregistered(m, "rs.bak"@) && unregistered(m, "x.rs.bak"@)
}

/// C16 / C03: EVERY row of the table: which language a registered extension denotes. Written from the
/// conventional meaning of the extensions (README, "Supported languages": `.htm` is HTML, `.pyi` is
/// Python, `.h` / `.cc` are read with the C++ grammar, `.tsx` has a grammar of its own ...), NOT from the
/// code: a row re-wired to another grammar (e.g. `htm` onto the XML parser, which reads `<script>` bodies
/// as markup and so finds "tags" outside comments) fails [C16.table.post.every_row_names_its_language].
pub open spec fn c16_rows(m: Map<OsString, LanguageParser>) -> bool {
    &&& registered(m, "Makefile"@, "makefile"@)
    &&& registered(m, "bash"@, "bash"@)
    &&& registered(m, "c"@, "c"@)
    &&& registered(m, "cc"@, "cpp"@)
    &&& registered(m, "cpp"@, "cpp"@)
    &&& registered(m, "cs"@, "c_sharp"@)
    &&& registered(m, "css"@, "css"@)
    &&& registered(m, "d.ts"@, "typescript"@)
    &&& registered(m, "go"@, "go"@)
    &&& registered(m, "go.mod"@, "go"@)
    &&& registered(m, "go.sum"@, "go"@)
    &&& registered(m, "go.work"@, "go"@)
    &&& registered(m, "h"@, "cpp"@)
    &&& registered(m, "htm"@, "html"@)
    &&& registered(m, "html"@, "html"@)
    &&& registered(m, "java"@, "java"@)
    &&& registered(m, "js"@, "javascript"@)
    &&& registered(m, "jsx"@, "javascript"@)
    &&& registered(m, "kt"@, "kotlin"@)
    &&& registered(m, "kts"@, "kotlin"@)
    &&& registered(m, "makefile"@, "makefile"@)
    &&& registered(m, "markdown"@, "markdown"@)
    &&& registered(m, "md"@, "markdown"@)
    &&& registered(m, "mk"@, "makefile"@)
    &&& registered(m, "php"@, "php"@)
    &&& registered(m, "phtml"@, "php"@)
    &&& registered(m, "py"@, "python"@)
    &&& registered(m, "pyi"@, "python"@)
    &&& registered(m, "rb"@, "ruby"@)
    &&& registered(m, "rs"@, "rust"@)
    &&& registered(m, "sh"@, "bash"@)
    &&& registered(m, "sql"@, "sql"@)
    &&& registered(m, "swift"@, "swift"@)
    &&& registered(m, "toml"@, "toml"@)
    &&& registered(m, "ts"@, "typescript"@)
    &&& registered(m, "tsx"@, "tsx"@)
    &&& registered(m, "xml"@, "xml"@)
    &&& registered(m, "yaml"@, "yaml"@)
    &&& registered(m, "yml"@, "yaml"@)
}

//@unit id=C16.table file=src/language_parsers/mod.rs fn=language_parsers slice_from=<<let bash_parser>> slice_to_block_end=1
//@wrapper
fn language_parsers_table() -> (r: anyhow::Result<HashMap<OsString, LanguageParser>>)
    ensures
        r matches Ok(m) ==> c16_table(m@), // [C16.table.post.registered_names]
        r matches Ok(m) ==> c16_rows(m@), // [C16.table.post.every_row_names_its_language]
//@edit rule=ghost before=<<let bash_parser>>
    broadcast use lemma_blocks_osstring_sig;
    proof {
        reveal_with_fuel(pairs_to_map, 64);
        reveal_strlit("mod"); reveal_strlit("sum"); reveal_strlit("work");
        reveal_strlit("bak"); reveal_strlit("rs.bak"); reveal_strlit("x.rs.bak");
    }
//@edit rule=E13 find=<<$a::parser()?>> count=all
verif_grammar_parser("$a")?
//@edit rule=E13 find=<<Rc::clone(&$a)>> count=all
verif_rc_clone(&$a)
//@edit rule=E13 find=<<$$s.into()>> count=all
({ proof { reveal_strlit($$s); } verif_osstring_from_str($$s) })
//@edit rule=E13 find=<<HashMap::from(>>
verif_hashmap_from_array(
//@end

// ---- C16: B6 instantiated on the names the property lists ---------------------------------------------
/// if `dots` lists exactly the positions of '.' in `name`, ascending, it is `char_positions(name, '.')`
proof fn lemma_positions_known(name: Seq<char>, dots: Seq<int>)
    requires
        forall|j: int| 0 <= j < dots.len() ==> 0 <= #[trigger] dots[j] < name.len() && name[dots[j]] == '.',
        forall|j: int, l: int| 0 <= j < l < dots.len() ==> #[trigger] dots[j] < #[trigger] dots[l],
        forall|i: int| 0 <= i < name.len() && #[trigger] name[i] == '.' ==> dots.contains(i),
    ensures
        char_positions(name, '.') =~= dots,
    decreases name.len(),
{
    if name.len() == 0 {
        if dots.len() > 0 { assert(0 <= dots[0] < name.len()); }
    } else {
        let t = name.drop_last();
        let last = name.len() - 1;
        if name.last() == '.' {
            assert(name[last] == '.');
            assert(dots.contains(last));
            let j = choose|j: int| 0 <= j < dots.len() && dots[j] == last;
            if j < dots.len() - 1 { assert(dots[j] < dots[dots.len() - 1]); }
            let d = dots.drop_last();
            assert forall|l: int| 0 <= l < d.len() implies 0 <= #[trigger] d[l] < t.len() && t[d[l]] == '.' by {
                assert(d[l] == dots[l]);
                assert(dots[l] < dots[dots.len() - 1]);
            }
            assert forall|i: int| 0 <= i < t.len() && #[trigger] t[i] == '.' implies d.contains(i) by {
                assert(name[i] == '.');
                let l = choose|l: int| 0 <= l < dots.len() && dots[l] == i;
                assert(d[l] == i);
            }
            lemma_positions_known(t, d);
            assert(dots =~= d.push(last));
        } else {
            assert forall|l: int| 0 <= l < dots.len() implies 0 <= #[trigger] dots[l] < t.len() && t[dots[l]] == '.' by {
                assert(name[dots[l]] == '.');
            }
            assert forall|i: int| 0 <= i < t.len() && #[trigger] t[i] == '.' implies dots.contains(i) by {
                assert(name[i] == '.');
            }
            lemma_positions_known(t, dots);
        }
    }
}

/// a name whose LAST dot is at `k` is tried first with the text after that dot — whatever precedes it
/// (`x.ts`, `x.d.ts`, `.x.ts`, `a.b.c.ts`): "the same tags are found whatever else the base name contains"
proof fn lemma_last_suffix_tried_first(name: Seq<char>, k: int)
    requires
        0 <= k < name.len() && name[k] == '.',
        forall|i: int| k < i < name.len() ==> #[trigger] name[i] != '.',
    ensures
        candidates(name).len() >= 2,
        candidates(name)[0] == name.subrange(k + 1, name.len() as int),
{
    lemma_char_positions(name, '.');
    let p = char_positions(name, '.');
    assert(p.contains(k));
    let j = choose|j: int| 0 <= j < p.len() && p[j] == k;
    if j < p.len() - 1 {
        assert(p[j] < p[p.len() - 1]);
        assert(name[p[p.len() - 1]] == '.');
    }
}

/// C16 for EVERY registered (or `-E`-mapped) extension at once, not only the names the property lists:
/// if the text after the LAST dot of the base name maps to a grammar, that grammar is chosen -- whatever
/// precedes the dot ("whatever else the base name or directories contain"). Together with unit C16.table
/// (which pins the 39 keys of `language_parsers()` on the real text) this is the full suffix table.
proof fn lemma_c16_any_mapped_suffix(path: PathBuf, m: Map<OsString, LanguageParser>, extra: Map<OsString, OsString>, k: int)
    requires
        base_name(path) is Some,
        0 <= k < base_name(path).unwrap().len() && base_name(path).unwrap()[k] == '.',
        forall|i: int| k < i < base_name(path).unwrap().len() ==> #[trigger] base_name(path).unwrap()[i] != '.',
        lookup(m, extra, osstring_of(base_name(path).unwrap().subrange(k + 1, base_name(path).unwrap().len() as int))) is Some,
    ensures
        grammar_for(path, m, extra) == lookup(m, extra, osstring_of(base_name(path).unwrap().subrange(k + 1, base_name(path).unwrap().len() as int))), // [C16.lemma.any_mapped_suffix_selects_its_grammar]
{
    let name = base_name(path).unwrap();
    lemma_last_suffix_tried_first(name, k);
    reveal_with_fuel(first_hit, 2);
}

/// ... and a name none of whose candidates maps is skipped (None), whatever it is
proof fn lemma_c16_unmapped_is_skipped(path: PathBuf, m: Map<OsString, LanguageParser>, extra: Map<OsString, OsString>)
    requires
        base_name(path) matches Some(name) ==> no_candidate_maps(name, m, extra),
    ensures
        grammar_for(path, m, extra) is None, // [C16.lemma.unmapped_name_is_skipped]
{
    if base_name(path) is Some {
        let name = base_name(path).unwrap();
        lemma_first_hit(candidates(name), m, extra, 0);
    }
}

/// C16 on the names the property lists, for the table of `language_parsers()` (`c16_table`, proved on
/// the real text by unit C16.table) and no `-E` mapping.
proof fn lemma_c16_examples(path: PathBuf, m: Map<OsString, LanguageParser>, extra: Map<OsString, OsString>)
    requires
        c16_table(m),
        extra =~= Map::<OsString, OsString>::empty(),
    ensures
        // `x.ts`, `x.d.ts`, `a.b.ts`, ...: any base name whose last dot is followed by `ts`
        (base_name(path) matches Some(name) && name.len() >= 3 && name.subrange(name.len() - 3, name.len() as int) == ".ts"@) // [C16.example.d_ts_and_ts]
            ==> (grammar_for(path, m, extra) matches Some(p) && p.grammar() == "typescript"@),
        // `go.mod`, `go.sum`, `go.work`: the whole name is the registered key (`mod` etc. are not)
        (base_name(path) == Some("go.mod"@) || base_name(path) == Some("go.sum"@) || base_name(path) == Some("go.work"@)) // [C16.example.go_mod_sum_work]
            ==> (grammar_for(path, m, extra) matches Some(p) && p.grammar() == "go"@),
        // `Makefile` / `makefile` in any directory (`dir.with.dots/Makefile`: only the base name counts)
        (base_name(path) == Some("Makefile"@) || base_name(path) == Some("makefile"@)) // [C16.example.makefile_any_directory]
            ==> (grammar_for(path, m, extra) matches Some(p) && p.grammar() == "makefile"@),
        // `x.rs.bak`: no candidate (`bak`, `rs.bak`, `x.rs.bak`) is registered: skipped
        base_name(path) == Some("x.rs.bak"@) ==> grammar_for(path, m, extra) is None, // [C16.example.unknown_suffix_skipped]
{
    reveal_with_fuel(first_hit, 4);
    reveal_strlit(".ts"); reveal_strlit("ts");
    reveal_strlit("go.mod"); reveal_strlit("go.sum"); reveal_strlit("go.work");
    reveal_strlit("mod"); reveal_strlit("sum"); reveal_strlit("work");
    reveal_strlit("Makefile"); reveal_strlit("makefile");
    reveal_strlit("x.rs.bak"); reveal_strlit("rs.bak"); reveal_strlit("bak");
    if base_name(path) is Some {
        let name = base_name(path).unwrap();
        if name.len() >= 3 && name.subrange(name.len() - 3, name.len() as int) == ".ts"@ {
            let k = name.len() - 3;
            let suf = name.subrange(k, name.len() as int);
            assert(suf[0] == '.' && suf[1] == 't' && suf[2] == 's');
            assert(name[k] == suf[0] && name[k + 1] == suf[1] && name[k + 2] == suf[2]);
            lemma_last_suffix_tried_first(name, k);
            assert(name.subrange(k + 1, name.len() as int) =~= "ts"@);
        }
        if name == "go.mod"@ {
            assert(name.len() == 6 && name[0] == 'g' && name[1] == 'o' && name[2] == '.' && name[3] == 'm' && name[4] == 'o' && name[5] == 'd');
            assert(seq![2int].contains(2)) by { assert(seq![2int][0] == 2); }
            lemma_positions_known(name, seq![2int]);
            assert(name.subrange(3, 6) =~= "mod"@);
            assert(candidates(name) =~= seq!["mod"@, name]);
        }
        if name == "go.sum"@ {
            assert(name.len() == 6 && name[0] == 'g' && name[1] == 'o' && name[2] == '.' && name[3] == 's' && name[4] == 'u' && name[5] == 'm');
            assert(seq![2int].contains(2)) by { assert(seq![2int][0] == 2); }
            lemma_positions_known(name, seq![2int]);
            assert(name.subrange(3, 6) =~= "sum"@);
            assert(candidates(name) =~= seq!["sum"@, name]);
        }
        if name == "go.work"@ {
            assert(name.len() == 7 && name[0] == 'g' && name[1] == 'o' && name[2] == '.' && name[3] == 'w' && name[4] == 'o' && name[5] == 'r' && name[6] == 'k');
            assert(seq![2int].contains(2)) by { assert(seq![2int][0] == 2); }
            lemma_positions_known(name, seq![2int]);
            assert(name.subrange(3, 7) =~= "work"@);
            assert(candidates(name) =~= seq!["work"@, name]);
        }
        if name == "Makefile"@ {
            assert(name.len() == 8 && name[0] == 'M' && name[1] == 'a' && name[2] == 'k' && name[3] == 'e' && name[4] == 'f' && name[5] == 'i' && name[6] == 'l' && name[7] == 'e');
            lemma_positions_known(name, Seq::<int>::empty());
            assert(candidates(name) =~= seq![name]);
        }
        if name == "makefile"@ {
            assert(name.len() == 8 && name[0] == 'm' && name[1] == 'a' && name[2] == 'k' && name[3] == 'e' && name[4] == 'f' && name[5] == 'i' && name[6] == 'l' && name[7] == 'e');
            lemma_positions_known(name, Seq::<int>::empty());
            assert(candidates(name) =~= seq![name]);
        }
        if name == "x.rs.bak"@ {
            assert(name.len() == 8 && name[0] == 'x' && name[1] == '.' && name[2] == 'r' && name[3] == 's' && name[4] == '.' && name[5] == 'b' && name[6] == 'a' && name[7] == 'k');
            let d = seq![1int, 4int];
            assert(d[0] == 1 && d[1] == 4);
            lemma_positions_known(name, d);
            assert(name.subrange(5, 8) =~= "bak"@);
            assert(name.subrange(2, 8) =~= "rs.bak"@);
            assert(candidates(name) =~= seq!["bak"@, "rs.bak"@, name]);
        }
    }
}

} // verus!
fn main() {}
