// Group `blocksel`: the orchestration functions of src/blocks.rs.
//   B6t  `try_parser_for_extension`   table lookup after the -E remapping
//   B6   `parser_for_file_path`       which grammar a file NAME gets (suffix search from the last dot
//                                     to the first, then the whole name)
// Properties: C16 (grammar chosen by file name; unknown names skipped), C04 (safety).
use vstd::prelude::*;
use std::collections::HashMap;
use std::ffi::OsString;
use std::ops::{Range, RangeFrom, RangeInclusive};
use std::path::PathBuf;

//@include prelude/anyhow.rs
//@include prelude/blocks_ax.rs

verus! {

broadcast use {vstd::std_specs::hash::group_hash_axioms, blocks_ax::group_blocks_ax};

//@include prelude/blocks_sel.rs

pub open spec fn opt_deref<'a>(o: Option<&'a LanguageParser>) -> Option<LanguageParser> {
    match o { Some(p) => Some(*p), None => None }
}

//@unit id=B6t file=src/blocks.rs fn=try_parser_for_extension ret=r
//@contract
    ensures
        // `remap(e) = extra.get(e).unwrap_or(e)`, then the table lookup of the remapped name
        opt_deref(r) == lookup(parsers@, extra_file_extensions@, *extension), // [B6t.post.lookup_of_remapped]
//@end

// facts proved before the loop (the reading of `first_hit`) stay visible at the `return` inside it
#[verifier::loop_isolation(false)]
//@unit id=B6 file=src/blocks.rs fn=parser_for_file_path ret=r
//@contract
    ensures
        // C16: a function of the base name, the table and the -E map: the grammar of the first
        // candidate in the order [after last '.', ..., after first '.', whole name] that maps
        opt_deref(r) == grammar_for(*file_path, parsers@, extra_file_extensions@), // [B6.post.grammar_for_name]
        r matches Some(p) ==> base_name(*file_path) is Some && exists|j: int| // [B6.post.first_mapping_candidate]
            #[trigger] first_mapping_candidate(base_name(*file_path).unwrap(), parsers@, extra_file_extensions@, j, *p),
        r is None <==> (base_name(*file_path) matches Some(name) ==> no_candidate_maps(name, parsers@, extra_file_extensions@)), // [B6.post.none_iff_no_candidate_maps]
//@edit rule=ghost after=<<let file_name = file_path.file_name()?.to_str()?;>>
    let ghost name = file_name@;
    let ghost dots = char_positions(name, '.');
    let ghost cands = candidates(name);
    proof {
        assert(base_name(*file_path) == Some(name));
        lemma_char_positions(name, '.');
        lemma_first_hit(cands, parsers@, extra_file_extensions@, 0);
        assert(first_hit(cands, parsers@, extra_file_extensions@, cands.len() as int) is None);
        assert(cands[dots.len() as int] == name); // the whole-name fallback is the last candidate
        if first_hit(cands, parsers@, extra_file_extensions@, 0) is Some {
            let p = first_hit(cands, parsers@, extra_file_extensions@, 0).unwrap();
            let h = choose|h: int| 0 <= h < cands.len()
                && #[trigger] lookup(parsers@, extra_file_extensions@, osstring_of(cands[h])) == Some(p)
                && (forall|l: int| 0 <= l < h ==> lookup(parsers@, extra_file_extensions@, osstring_of(#[trigger] cands[l])) is None);
            assert(first_mapping_candidate(name, parsers@, extra_file_extensions@, h, p));
        }
    }
//@chain rule=E13 find=<<.file_name()?.to_str(>> to=verif_path_base_name
//@chain rule=E13 find=<<.match_indices(>> to=verif_match_indices_char optional=1
//@chain rule=E13 find=<<.rev(>> to=verif_iter_rev optional=1
//@edit rule=E15 find=<<for (i, _) in>>
    for (i, _) in it:
//@edit rule=E15 before=<<{ let extension>>
        invariant
            name == file_name@ && dots == char_positions(name, '.') && cands == candidates(name),
            forall|j: int| 0 <= j < dots.len() ==> 0 <= (#[trigger] dots[j]) < name.len() && name[dots[j]] == '.',
            // the candidates tried so far (suffixes after the last dots) map to nothing
            first_hit(cands, parsers@, extra_file_extensions@, 0) == first_hit(cands, parsers@, extra_file_extensions@, it.index@ as int), // [B6.inv.earlier_candidates_map_to_nothing]
            // E13/E14: the loop visits the dots from the LAST to the FIRST
            it.seq().len() == dots.len() ==> (forall|j: int| 0 <= j < it.seq().len() ==> (#[trigger] it.seq()[j]).0 == byte_off(name, dots[dots.len() - 1 - j])), // [B6.inv.dots_visited_last_to_first]
            it.seq().len() == dots.len(),
            forall|j: int| 0 <= j < it.seq().len() ==> (#[trigger] it.seq()[j]).0 < isize::MAX,
//@edit rule=ghost before=<<let extension>>
        let ghost jj = it.index@ as int;
        let ghost k = dots[dots.len() - 1 - jj];
        proof {
            assert(i == it.seq()[jj].0);
            assert(0 <= k < name.len() && name[k] == '.');
            assert(byte_off(name, k + 1) == byte_off(name, k) + utf8_len(name[k]));
            assert(is_char_boundary(name, i + 1));
            assert(cands[jj] == name.subrange(k + 1, name.len() as int));
        }
//@edit rule=ghost before=<<if let Some(parser) = try_parser_for_extension>>
        proof {
            // the candidate tried in this round is the suffix after the jj-th dot from the right
            assert(extension@ == cands[jj]); // [B6.step.candidate_is_suffix_after_dot]
            assert(ext_os == osstring_of(cands[jj]));
        }
//@wrap rule=E13 find=<<&file_name[>> to=<<verif_str_index(file_name, >> close=<<)>>
//@edit rule=E13 find=<<OsString::from($a)>> count=all
verif_osstring_from_str($a)
//@end

//@include prelude/blocks_parse.rs

//@unit id=B5 file=src/blocks.rs fn=parse_file ret=r
//@contract
    requires
        lcs_wf(line_changes@), // [B5.pre.line_changes_wf]
        // the caller may only hand over files it is entitled to read (when they have a grammar at all)
        grammar_for(*file_path, parsers@, extra_file_extensions@) is Some ==> file_reader.may_read(*file_path), // [B5.pre.may_read_if_grammar]
    ensures
        // C16: a name that maps to no grammar is skipped (and, FS.read.pre: never read)
        grammar_for(*file_path, parsers@, extra_file_extensions@) is None ==> r matches Ok(None), // [B5.post.unknown_name_skipped]
        grammar_for(*file_path, parsers@, extra_file_extensions@) is Some && file_reader.read_spec(*file_path) is None ==> r is Err, // [B5.post.read_err_propagates]
        // C12: a parse error (unbalanced tags) is a hard error, never a silent skip
        grammar_for(*file_path, parsers@, extra_file_extensions@) is Some && file_reader.read_spec(*file_path) is Some // [B5.post.parse_err_propagates]
            && grammar_for(*file_path, parsers@, extra_file_extensions@).unwrap().parse_spec(file_reader.read_spec(*file_path).unwrap()) is None
            ==> r is Err,
        // C02: the blocks kept are, in order, exactly those the filter selects, with the two flags of B3/B4
        grammar_for(*file_path, parsers@, extra_file_extensions@) is Some && file_reader.read_spec(*file_path) is Some // [B5.post.selected_blocks_with_flags]
            && grammar_for(*file_path, parsers@, extra_file_extensions@).unwrap().parse_spec(file_reader.read_spec(*file_path).unwrap()) is Some
            ==> (r matches Ok(Some(fb)) && fb.file_content@ == file_reader.read_spec(*file_path).unwrap()
                && fb.blocks_with_context@ == select_blocks(
                    grammar_for(*file_path, parsers@, extra_file_extensions@).unwrap().parse_spec(file_reader.read_spec(*file_path).unwrap()).unwrap(),
                    line_changes@, blocks_filter)),
        // summary used by B7: the result is a function of the inputs
        outcome_of(r) == parse_file_spec(*file_path, line_changes@, blocks_filter, file_reader, parsers@, extra_file_extensions@), // [B5.post.outcome_is_function_of_inputs]
//@dropcall rule=E1 name=context
//@closure rule=E12 find=<<|block|>> params=<<|block: Block|>> ret=<<o: Option<BlockWithContext>>>
            requires
                block_wf(block),
                lcs_wf(line_changes@),
            ensures
                o == select_block(block, line_changes@, blocks_filter), // [B5.closure.keep_iff_all_or_touched]
//@edit rule=ghost before=<<let blocks_with_context>>
    let ghost bs = blocks@;
//@chain rule=E3 find=<<.into_iter().filter_map(>> to=verif_filter_map_collect suffix=<<.collect()>>
//@edit rule=ghost before=<<Ok(Some(FileBlocks>>
    proof {
        let lcs = line_changes@;
        assert(exists|outs: Seq<Option<BlockWithContext>>| outs.len() == bs.len()
            && (forall|i: int| 0 <= i < bs.len() ==> #[trigger] outs[i] == select_block(bs[i], lcs, blocks_filter))
            && blocks_with_context@ == somes(outs));
        let outs = choose|outs: Seq<Option<BlockWithContext>>| outs.len() == bs.len()
            && (forall|i: int| 0 <= i < bs.len() ==> #[trigger] outs[i] == select_block(bs[i], lcs, blocks_filter))
            && blocks_with_context@ == somes(outs);
        assert(outs =~= Seq::new(bs.len(), |i: int| select_block(bs[i], lcs, blocks_filter)));
    }
//@end

} // verus!
fn main() {}
