// Group `blocksel`: the orchestration functions of src/blocks.rs.
//   B6t  `try_parser_for_extension`   table lookup after the -E remapping
//   B6   `parser_for_file_path`       which grammar a file NAME gets (suffix search from the last dot
//                                     to the first, then the whole name)
// Properties: C16 (grammar chosen by file name; unknown names skipped), C04 (safety).
use vstd::prelude::*;
use std::collections::HashMap;
use std::ffi::OsString;
use std::ops::{Range, RangeFrom, RangeInclusive};
use std::path::PathBuf;

//@include prelude/anyhow.rs
//@include prelude/blocks_ax.rs

verus! {

broadcast use {vstd::std_specs::hash::group_hash_axioms, blocks_ax::group_blocks_ax};

//@include prelude/blocks_sel.rs

pub open spec fn opt_deref<'a>(o: Option<&'a LanguageParser>) -> Option<LanguageParser> {
    match o { Some(p) => Some(*p), None => None }
}

//@unit id=B6t file=src/blocks.rs fn=try_parser_for_extension ret=r
//@contract
    ensures
        // `remap(e) = extra.get(e).unwrap_or(e)`, then the table lookup of the remapped name
        opt_deref(r) == lookup(parsers@, extra_file_extensions@, *extension), // [B6t.post.lookup_of_remapped]
//@end

//@unit id=B6 file=src/blocks.rs fn=parser_for_file_path ret=r
//@contract
    ensures
        // C16: a function of the base name, the table and the -E map: the grammar of the first
        // candidate in the order [after last '.', ..., after first '.', whole name] that maps
        opt_deref(r) == grammar_for(*file_path, parsers@, extra_file_extensions@), // [B6.post.grammar_for_name]
        r matches Some(p) ==> base_name(*file_path) is Some && exists|j: int| // [B6.post.first_mapping_candidate]
            #[trigger] first_mapping_candidate(base_name(*file_path).unwrap(), parsers@, extra_file_extensions@, j, *p),
        r is None <==> (base_name(*file_path) matches Some(name) ==> no_candidate_maps(name, parsers@, extra_file_extensions@)), // [B6.post.none_iff_no_candidate_maps]
//@edit rule=ghost after=<<let file_name = file_path.file_name()?.to_str()?;>>
    let ghost name = file_name@;
    let ghost dots = char_positions(name, '.');
    let ghost cands = candidates(name);
    proof {
        assert(base_name(*file_path) == Some(name));
        lemma_char_positions(name, '.');
        lemma_first_hit(cands, parsers@, extra_file_extensions@, 0);
        if first_hit(cands, parsers@, extra_file_extensions@, 0) is Some {
            let p = first_hit(cands, parsers@, extra_file_extensions@, 0).unwrap();
            let h = choose|h: int| 0 <= h < cands.len()
                && #[trigger] lookup(parsers@, extra_file_extensions@, osstring_of(cands[h])) == Some(p)
                && (forall|l: int| 0 <= l < h ==> lookup(parsers@, extra_file_extensions@, osstring_of(#[trigger] cands[l])) is None);
            assert(first_mapping_candidate(name, parsers@, extra_file_extensions@, h, p));
        }
    }
//@chain rule=E13 find=<<.file_name()?.to_str(>> to=verif_path_base_name
//@chain rule=E13 find=<<.match_indices(>> to=verif_match_indices_char optional=1
//@chain rule=E13 find=<<.rev(>> to=verif_iter_rev optional=1
//@edit rule=E15 find=<<for (i, _) in>>
    for (i, _) in it:
//@edit rule=E15 before=<<{ let extension>>
        invariant
            name == file_name@ && dots == char_positions(name, '.') && cands == candidates(name),
            forall|j: int| 0 <= j < dots.len() ==> 0 <= (#[trigger] dots[j]) < name.len() && name[dots[j]] == '.',
            // the candidates tried so far (suffixes after the last dots) map to nothing
            first_hit(cands, parsers@, extra_file_extensions@, 0) == first_hit(cands, parsers@, extra_file_extensions@, it.index@ as int), // [B6.inv.earlier_candidates_map_to_nothing]
            // E13/E14: the loop visits the dots from the LAST to the FIRST
            it.seq().len() == dots.len() ==> (forall|j: int| 0 <= j < it.seq().len() ==> (#[trigger] it.seq()[j]).0 == byte_off(name, dots[dots.len() - 1 - j])), // [B6.inv.dots_visited_last_to_first]
            it.seq().len() == dots.len(),
            forall|j: int| 0 <= j < it.seq().len() ==> (#[trigger] it.seq()[j]).0 < isize::MAX,
//@edit rule=ghost after=<<{ let extension>> before_stmt=1
//@wrap rule=E13 find=<<&file_name[>> to=<<verif_str_index(file_name, >> close=<<)>>
//@edit rule=E13 find=<<OsString::from($a)>> count=all
verif_osstring_from_str($a)
//@end

} // verus!
fn main() {}
