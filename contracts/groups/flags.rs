// Group `flags`: unit F1 — up-front rejection of bad command lines (src/flags.rs).
//   F1   `Args::validate`     both --enable and --disable => Err; an -E target that is not a supported
//                             extension => Err; otherwise Ok
//   F1p  `parse_validator`    a name that is not in the detector table => Err
// Properties: C14 ("using both flags together, or naming an unknown validator, is rejected ... before
// anything is validated"), C16 (extension remapping only onto supported grammars), C04.
use vstd::prelude::*;
use std::collections::{HashMap, HashSet};
use std::ffi::OsString;

//@include prelude/orch_anyhow.rs
//@include prelude/tstr_mod.rs
use anyhow::Context;

verus! {

//@include prelude/strings.rs

// ---- std types / functions without a vstd specification -------------------------------------------
#[verifier::external_type_specification]
#[verifier::external_body]
pub struct ExOsString(OsString);

/// `OsString::from(&String)`: a function of the text (injectivity is not needed)
pub uninterp spec fn osstring_of(s: Seq<char>) -> OsString;

/// E13-style shim: `OsString::from(val)` is an instance of the blanket `impl<T: AsRef<OsStr>> From<&T>`,
/// which cannot take an `assume_specification` for one instantiation.
#[verifier::external_body]
pub fn verif_osstring_from(s: &String) -> (r: OsString)
    ensures r == osstring_of(s@),
{ OsString::from(s) }

/// T-std: `&OsString` hashes and compares like the `OsString` it points to, deterministically.
pub broadcast axiom fn axiom_osstring_ref_key_model<'a>()
    ensures #[trigger] vstd::std_specs::hash::obeys_key_model::<&'a OsString>();

/// T-std: `HashSet<&OsString>::contains(&OsString)` goes through `&OsString: Borrow<OsString>`, for which
/// vstd leaves "contains the borrowed key" uninterpreted. A reference borrows as its referent, so this is
/// plain membership (references are transparent in specifications).
pub broadcast axiom fn axiom_contains_ref_osstring<'a>(s: Set<&'a OsString>, q: &OsString)
    ensures #[trigger] vstd::std_specs::hash::set_contains_borrowed_key::<&'a OsString, OsString>(s, q) <==> s.contains(q);

//@item file=src/flags.rs kind=enum name=SubCommand
//@item file=src/flags.rs kind=struct name=Args

// ---------------------------------------------------------------------------------------------
// Specification, from the statements of C14 and C16.

/// some `-E KEY=VALUE` maps onto a VALUE that is not a supported extension
pub open spec fn has_unsupported_mapping<'a>(exts: Seq<(String, String)>, supported: Set<&'a OsString>) -> bool {
    exists|i: int| 0 <= i < exts.len() && !supported.contains(&osstring_of(#[trigger] exts[i].1@))
}

impl Args {
#[verifier::loop_isolation(false)]
//@unit id=F1 file=src/flags.rs fn=<<impl Args::validate>> ret=r
//@contract
        ensures
            self.disabled_validators@.len() > 0 && self.enabled_validators@.len() > 0 ==> r is Err, // [F1.post.both_flags_is_err]
            has_unsupported_mapping(self.extensions@, supported_extensions@) ==> r is Err, // [F1.post.unsupported_mapping_is_err]
            !(self.disabled_validators@.len() > 0 && self.enabled_validators@.len() > 0) // [F1.post.ok_otherwise]
                && !has_unsupported_mapping(self.extensions@, supported_extensions@) ==> r is Ok,
//@edit rule=ghost before=<<for (key, val) in &self.extensions>>
        broadcast use axiom_osstring_ref_key_model, axiom_contains_ref_osstring;
//@edit rule=E15 find=<<for (key, val) in &self.extensions>>
        for (key, val) in it: &self.extensions
            invariant
                forall|i: int| 0 <= i < it.index@ ==> supported_extensions@.contains(&osstring_of(#[trigger] self.extensions@[i].1@)), // [F1.inv.mappings_so_far_supported]
                it.seq().len() == self.extensions@.len(),
                forall|i: int| 0 <= i < it.seq().len() ==> *#[trigger] it.seq()[i] == self.extensions@[i],
//@edit rule=E13 find=<<OsString::from(val)>> optional=1
verif_osstring_from(val)
//@macro rule=E1 name=bail to=<<return Err(anyhow::verif_err())>> optional=1
//@end
}

// ---- the detector table as seen by `parse_validator` ----------------------------------------------
/// The names column of `validators::DETECTOR_FACTORIES` (src/validators/mod.rs:253). The table itself
/// holds function pointers (no Verus support); V10 receives the same constant from `main`.
pub uninterp spec fn table_names() -> Seq<&'static str>;

/// E3 shim: `validators::DETECTOR_FACTORIES.iter().map(|(validator_name, _)| *validator_name).collect()`
/// (iterator adapters and tuple-pattern closures are outside Verus): the names, in table order.
#[verifier::external_body]
pub fn verif_detector_table_names() -> (r: Vec<&'static str>)
    ensures r@ == table_names(),
{ unimplemented!() }

/// the name occurs in the list (strings compared by content, as `str == str` does)
pub open spec fn name_listed(names: Seq<&'static str>, name: Seq<char>) -> bool {
    exists|i: int| 0 <= i < names.len() && (#[trigger] names[i])@ == name
}

/// E13-style shim: `<[&str]>::contains(&&str)` (vstd has no specification; `PartialEq for str` compares bytes)
#[verifier::external_body]
pub fn verif_str_list_contains(list: &Vec<&'static str>, x: &str) -> (r: bool)
    ensures r == name_listed(list@, x@),
{ list.iter().any(|y| *y == x) }

//@unit id=F1p file=src/flags.rs fn=parse_validator ret=r
//@contract
    ensures
        !name_listed(table_names(), value@) ==> r is Err, // [F1p.post.unknown_name_is_err]
        name_listed(table_names(), value@) ==> (r matches Ok(s) && s@ == trim_spec(value@)), // [F1p.post.known_name_is_ok]
//@edit rule=E3 find=<<validators::DETECTOR_FACTORIES .iter() .map(|(validator_name, _)| *validator_name) .collect()>> optional=1
verif_detector_table_names()
//@edit rule=E13 find=<<validators .contains(&value)>> optional=1
verif_str_list_contains(&validators, value)
//@macro rule=E1 name=format to=<<anyhow::verif_msg()>> optional=1
//@closure rule=E12 find=<<.then(||>> params=<<.then(||>> ret=<<t: String>>
            ensures t@ == trim_spec(value@), // [F1p.closure.trimmed_name]
//@end

} // verus!
fn main() {}
