// Group `intervals`: the interval logic that decides "does the diff touch this block?".
// Units: B1 B2 (line-change vs. position range), B3 B4 (any line change), V5 (content line position).
// Properties: C01 C02 (selection / modification flags), C10 (V5), C04 (safety obligations).
use vstd::prelude::*;
use std::cmp::Ordering;
use std::collections::HashMap;
use std::ops::{Range, RangeInclusive};

verus! {

//@include prelude/std_range.rs

//@item file=src/lib.rs kind=struct name=Position
//@item file=src/diff_parser.rs kind=struct name=LineChange
//@item file=src/blocks.rs kind=struct name=Block

// ---------------------------------------------------------------------------------------------
// Specification, written from the property statements (C01/C02), not from the code.
//
// A LineChange says "line `line` of the new file changed"; when `ranges` is present only the
// 0-based half-open byte column ranges listed changed. A region of the file is given by two
// 1-based positions. `hits_half_open` is the set-theoretic "the change meets the region":
// the line lies in the region's line span and, when ranges are known, some range meets the
// region's column span on that line (columns converted to 0-based; the span is unbounded to the
// right on every line but the region's last).

pub open spec fn ranges_wf(r: Seq<Range<usize>>) -> bool {
    &&& forall|i: int| 0 <= i < r.len() ==> (#[trigger] r[i]).start < r[i].end
    &&& forall|i: int, j: int| 0 <= i < j < r.len() ==> (#[trigger] r[i]).end < (#[trigger] r[j]).start
}

pub open spec fn lc_wf(lc: LineChange) -> bool {
    lc.ranges matches Some(v) ==> ranges_wf(v@)
}

pub open spec fn col_lo(start: Position, line: usize) -> int {
    if line == start.line { start.character - 1 } else { 0 }
}

pub open spec fn col_hi(end: Position, line: usize) -> int {
    if line < end.line { usize::MAX as int } else { end.character - 1 }
}

/// region = [start, end) (content of a block)
pub open spec fn hits_half_open(start: Position, end: Position, lc: LineChange) -> bool {
    start.line <= lc.line <= end.line && (lc.ranges matches Some(v) ==>
        exists|k: int| 0 <= k < v@.len() && (#[trigger] v@[k]).end > col_lo(start, lc.line) && v@[k].start < col_hi(end, lc.line))
}

/// region = [start, end] (start tag, from `<` to `>`)
pub open spec fn hits_closed(start: Position, end: Position, lc: LineChange) -> bool {
    start.line <= lc.line <= end.line && (lc.ranges matches Some(v) ==>
        exists|k: int| 0 <= k < v@.len() && (#[trigger] v@[k]).end > col_lo(start, lc.line) && v@[k].start <= col_hi(end, lc.line))
}

pub open spec fn block_wf(b: Block) -> bool {
    &&& b.content_position_range.start.character >= 1
    &&& b.content_position_range.end.character >= 1
    &&& b.start_tag_position_range@.start.character >= 1
    &&& b.start_tag_position_range@.end.character >= 1
}

impl Block {

//@unit id=B2 file=src/blocks.rs fn=<<impl Block::intersects_with_line_change_inclusive>> ret=b
//@contract
        requires
            position_range@.start.character >= 1,
            position_range@.end.character >= 1,
            lc_wf(*line_change),
        ensures
            b == hits_closed(position_range@.start, position_range@.end, *line_change), // [B2.post.hits_closed]
//@edit rule=E12 find=<<|range| {>>
|range: &Range<usize>| -> (o: Ordering)
                    ensures
                        o == Ordering::Equal <==> (range.end > start_character && range.start <= end_character), // [B2.closure.cmp]
                        o == Ordering::Less <==> !(range.end > start_character && range.start <= end_character) && range.end <= start_character,
                {
//@end

//@unit id=B1 file=src/blocks.rs fn=<<impl Block::intersects_with_line_change>> ret=b
//@contract
        requires
            position_range.start.character >= 1,
            position_range.end.character >= 1,
            lc_wf(*line_change),
        ensures
            b == hits_half_open(position_range.start, position_range.end, *line_change), // [B1.post.hits_half_open]
//@edit rule=E12 find=<<|range| {>>
|range: &Range<usize>| -> (o: Ordering)
                    ensures
                        o == Ordering::Equal <==> (range.end > start_character && range.start < end_character), // [B1.closure.cmp]
                        o == Ordering::Less <==> !(range.end > start_character && range.start < end_character) && range.end <= start_character,
                {
//@end

//@unit id=B3 file=src/blocks.rs fn=<<impl Block::content_intersects_with_any>> ret=b
//@contract
        requires
            block_wf(*self),
            forall|i: int| 0 <= i < line_changes@.len() ==> lc_wf(#[trigger] line_changes@[i]),
        ensures
            b == exists|i: int| 0 <= i < line_changes@.len() && hits_half_open( // [B3.post.exists_hit]
                self.content_position_range.start, self.content_position_range.end, #[trigger] line_changes@[i]),
//@edit rule=E15 find=<<for line_change in line_changes>>
for line_change in it: line_changes
            invariant
                block_wf(*self),
                forall|i: int| 0 <= i < line_changes@.len() ==> lc_wf(#[trigger] line_changes@[i]),
                forall|i: int| 0 <= i < it.index@ ==> !hits_half_open( // [B3.inv.no_hit_so_far]
                    self.content_position_range.start, self.content_position_range.end, #[trigger] line_changes@[i]),
//@end

//@unit id=B4 file=src/blocks.rs fn=<<impl Block::start_tag_intersects_with_any>> ret=b
//@contract
        requires
            block_wf(*self),
            forall|i: int| 0 <= i < line_changes@.len() ==> lc_wf(#[trigger] line_changes@[i]),
        ensures
            b == exists|i: int| 0 <= i < line_changes@.len() && hits_closed( // [B4.post.exists_hit]
                self.start_tag_position_range@.start, self.start_tag_position_range@.end, #[trigger] line_changes@[i]),
//@edit rule=E15 find=<<for line_change in line_changes>>
for line_change in it: line_changes
            invariant
                block_wf(*self),
                forall|i: int| 0 <= i < line_changes@.len() ==> lc_wf(#[trigger] line_changes@[i]),
                forall|i: int| 0 <= i < it.index@ ==> !hits_closed( // [B4.inv.no_hit_so_far]
                    self.start_tag_position_range@.start, self.start_tag_position_range@.end, #[trigger] line_changes@[i]),
//@end

} // impl Block

} // verus!
fn main() {}
