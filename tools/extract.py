"""Extractor: builds a Verus input file from a group template plus the *current* text of /repo.

A group template (contracts/groups/<group>.rs) is a Verus source file with directive lines that
start with `//@`.  Everything else is copied as is (spec functions, lemmas, assumed std specs,
shims).  Directives:

  //@include <relative path>            paste another file of /verif/contracts (prelude pieces)
  //@item file=<src> kind=<struct|enum|const|type> name=<N> [keep_attrs=1]
        paste the item's text from /repo verbatim, minus attributes and visibility (rule E11); in a
        `const NAME: &T` the elided lifetime is spelled `'static` (what elision means in a constant)
  //@unit id=<ID> file=<src> fn=<[ImplHeader::]name> [ret=<name>] [rename=<new fn name>] [optional=1]
        ... sub-directives ...
  //@end
        paste the function `name` from /repo (searched at module level, or inside the impl block
        whose header is ImplHeader, e.g. `impl Block` or `impl ValidatorSync for X`), after
        applying the edits below.  Sub-directives (payload = following lines up to next //@):
          //@contract            payload spliced between signature and body (requires/ensures)
          //@edit rule=<R> find=<<tokens>> [count=N|all]     payload replaces the matched tokens
          //@edit rule=ghost after=<<tokens>> | before=<<tokens>>   payload inserted (ghost text)
          //@edit rule=ghost at=body_start      payload inserted right after the function body's opening brace
          //@sig                 payload replaces the signature (rule E7/E12 for trait impls and
                                 parameter types outside Verus' subset); the real signature must
                                 token-equal the text given in `was=<<...>>`
          //@macro rule=E1 name=<anyhow|format|...> to=<<replacement>>   every `name!(...)`
                                 invocation is replaced (balanced parentheses)
          //@slice loop=<k> | closure=<k> ...   (see DESIGN section 4; used for loop units)
          //@unit .. slice_closure=<<|a, $b|>>  the slice is the whole BODY of the closure literal with these
                                 parameters (block contents, or the expression body); `//@head` payload goes
                                 before the body, `//@tail` after it (group langclosures)
          //@forin rule=E14 find=<<for PAT in EXPR>> [var=<<name>>] [to=<<shim>>]   payload: invariant/decreases;
                                 `for PAT in EXPR { B }` => `let mut VAR = [shim(]EXPR[)]; loop <payload> { match
                                 VAR.next() { Some(PAT) => { B } None => { break; } } }` (Rust's definition of `for`)
          //@letchain rule=E8 find=<<if let P = E &&>> [count=all]   let-chain => nested `if` (all identical ones)
          //@foridx rule=E18 find=<<for PAT in &EXPR>> [idx=<name>] [nth=k of=n]   payload = invariants;
                                 `for PAT in &EXPR { B }` over a Vec/slice by reference whose body uses
                                 `continue` -> index-based `while` (index advanced before B)
          //@replaceslice rule=SLICE-CALL of=<group>:<unit> | from=<<tokens>> to_block_end=1 | until=<<tokens>> | through=<<tokens>>
                                 payload (a call of the slice's wrapper function) replaces exactly the
                                 statement range a slice unit with the same anchors verifies
          //@strslice rule=E13 from=<shim> to=<shim> range=<shim> [optional=1]
                                 every str range indexing `&X[A..]` / `&X[..B]` / `&X[A..B]` (also without `&`)
                                 -> `from(X, A)` / `to(X, B)` / `range(X, A, B)`; X, A, B verbatim
  //@stubof group=<g> unit=<ID>         emit `#[verifier::external_body] <signature + contract of unit ID
        of contracts/groups/<g>.rs> { unimplemented!() }` (payload lines = extra clauses, logged; a payload
        that starts with `requires` holds extra call-site obligations and is spliced BEFORE the contract);
        `optional=1` (on `//@unit` and on `//@stubof`): a function that is absent from the text of /repo is skipped
  //@copyfrom file=<rel path> from=<<line prefix>> until=<<line prefix>> [until_nth=k]
        copy the hand-written lines (spec fns) of another template, from the first line starting with
        `from` up to (excluding) the k-th later line starting with `until`; no directives allowed inside

All matching is on token sequences (whitespace and comments ignored).  An anchor that is not found
(or found a different number of times than requested) raises ExtractError -> the check exits 2
("undecided"), never 1.

Labels: a payload line may end with `// [LABEL]`; the generated line number is recorded so that a
verifier diagnostic pointing at that line is reported as obligation LABEL.
"""
import difflib
import json
import os
import re
import sys

sys.path.insert(0, os.path.dirname(os.path.abspath(__file__)))
import rustlex  # noqa: E402

VERIF = os.path.dirname(os.path.dirname(os.path.abspath(__file__)))
REPO = os.environ.get('VERIF_REPO', '/repo')


class ExtractError(Exception):
    pass


def read_repo(rel):
    p = os.path.join(REPO, rel)
    if rel.startswith('registry:'):
        # source of a locked dependency, e.g. `registry:unidiff-0.4.0/src/lib.rs` (stand-in types
        # of external crates are pasted from it, DESIGN 2.9); independent of VERIF_REPO
        import glob
        hits = sorted(glob.glob(os.path.join(os.path.expanduser('~/.cargo/registry/src'), '*', rel[len('registry:'):])))
        if len(hits) != 1:
            raise ExtractError('cannot resolve %s: %d candidates' % (rel, len(hits)))
        p = hits[0]
    try:
        with open(p, encoding='utf-8') as f:
            return f.read()
    except OSError as e:
        raise ExtractError('cannot read %s: %s' % (p, e))


def parse_kv(s):
    """Parse `key=value key=<<multi word>> ...`."""
    out = {}
    i = 0
    s = s.strip()
    while i < len(s):
        m = re.compile(r'\s*([A-Za-z_]+)=').match(s, i)
        if not m:
            raise ExtractError('bad directive arguments: %r' % s)
        key = m.group(1)
        i = m.end()
        if s.startswith('<<', i):
            j = s.find('>>', i)
            # allow >> inside by taking the last >> before the next ` key=` or end
            nxt = re.compile(r'>>\s+[A-Za-z_]+=|>>\s*$').search(s, i)
            if not nxt:
                raise ExtractError('unterminated << in %r' % s)
            j = nxt.start()
            out[key] = s[i + 2:j]
            i = j + 2
        else:
            m2 = re.compile(r'\S+').match(s, i)
            out[key] = m2.group(0) if m2 else ''
            i = m2.end() if m2 else i
    return out


# ------------------------------------------------------------------------------------------
# locating items in a Rust source file


def _depth_at(masked, upto):
    return masked.count('{', 0, upto) - masked.count('}', 0, upto)


def find_impl_range(text, masked, header):
    """(body_start, body_end) of `impl ... {` whose header token-equals `header`, at depth 0."""
    want = [t[0] for t in rustlex.tokens(header)]
    for m in re.finditer(r'\bimpl\b', masked):
        if _depth_at(masked, m.start()) != 0:
            continue
        ob = masked.find('{', m.start())
        if ob < 0:
            continue
        got = [t[0] for t in rustlex.tokens(text[m.start():ob])]
        if got == want:
            return ob + 1, rustlex.match_close(masked, ob)
    raise ExtractError('impl block `%s` not found' % header)


def find_fn(text, name, impl_header=None):
    """Return (fn_start, sig_end_brace, body_end_brace) for `fn name`."""
    masked = rustlex.mask(text)
    if impl_header:
        lo, hi = find_impl_range(text, masked, impl_header)
        depth = 1
    else:
        lo, hi, depth = 0, len(text), 0
    cands = []
    for m in re.finditer(r'\bfn\s+%s\b' % re.escape(name), masked[lo:hi]):
        s = lo + m.start()
        if _depth_at(masked, s) == depth:
            cands.append(s)
    if len(cands) != 1:
        raise ExtractError('fn %s%s: found %d candidates' % (
            (impl_header + '::') if impl_header else '', name, len(cands)))
    s = cands[0]
    # signature ends at first `{` at paren/bracket depth 0
    i, pd = s, 0
    while i < len(masked):
        ch = masked[i]
        if ch in '([':
            pd += 1
        elif ch in ')]':
            pd -= 1
        elif ch == '{' and pd == 0:
            break
        elif ch == ';' and pd == 0:
            raise ExtractError('fn %s has no body' % name)
        i += 1
    ob = i
    cb = rustlex.match_close(masked, ob)
    return s, ob, cb


def find_item(text, kind, name):
    masked = rustlex.mask(text)
    for m in re.finditer(r'\b%s\s+%s\b' % (kind, re.escape(name)), masked):
        if _depth_at(masked, m.start()) != 0:
            continue
        # end: `;` or matching `}` whichever first at depth 0
        i = m.end()
        while i < len(masked) and masked[i] not in '{;(':
            i += 1
        if masked[i] == ';':
            return m.start(), i + 1
        if masked[i] == '(':  # tuple struct
            c = rustlex.match_close(masked, i)
            j = masked.find(';', c)
            return m.start(), j + 1
        return m.start(), rustlex.match_close(masked, i) + 1
    raise ExtractError('%s %s not found' % (kind, name))


# ------------------------------------------------------------------------------------------
# edits


def strip_vis_and_attrs(s):
    """Rule E11: drop visibility qualifiers, outer attributes and `crate::` path prefixes."""
    masked = rustlex.mask(s)
    out, i = [], 0
    pat = re.compile(r'#\s*\[|\bpub\s*\(\s*(crate|super)\s*\)|\bpub\b|\bcrate\s*::')
    while True:
        m = pat.search(masked, i)
        if not m:
            out.append(s[i:])
            break
        out.append(s[i:m.start()])
        if masked[m.start()] == '#':
            ob = masked.find('[', m.start())
            i = rustlex.match_close(masked, ob) + 1
        else:
            i = m.end()
    return ''.join(out)


def pubify_item(s):
    """Rule E11 (second half): after visibility qualifiers were stripped, make the item and its
    named fields `pub` so that the (pub) specification functions of the generated single-module
    file may mention them. Visibility has no run-time meaning."""
    toks = rustlex.tokens(s)
    ins = []
    depth = angle = 0
    prev = None
    for k, (t, st, en) in enumerate(toks):
        if depth == 0 and t in ('struct', 'enum', 'const', 'type') and prev != 'pub':
            ins.append(st)
        if t in '{([':
            depth += 1
        elif t in '})]':
            depth -= 1
        elif t == '<':
            angle += 1
        elif t == '>' and prev != '-':
            angle = max(0, angle - 1)
        elif (depth == 1 and angle == 0 and prev in ('{', ',') and re.match(r'^[A-Za-z_]', t)
              and k + 1 < len(toks) and toks[k + 1][0] == ':' and toks[0][0] == 'struct'
              and not (k + 2 < len(toks) and toks[k + 2][0] == ':')):
            ins.append(st)
        prev = t
    for pos in sorted(ins, reverse=True):
        s = s[:pos] + 'pub ' + s[pos:]
    return s


def replace_macros(s, name, to):
    """Replace every `name!( ... )` (balanced) by `to`."""
    n = 0
    while True:
        masked = rustlex.mask(s)
        m = re.search(r'(\b(anyhow\s*::\s*)?%s\s*!\s*)[(\[{]' % re.escape(name), masked)
        if not m:
            return s, n
        ob = m.end() - 1
        cb = rustlex.match_close(masked, ob)
        s = s[:m.start()] + to + s[cb + 1:]
        n += 1


def replace_method_calls(s, method, to_prefix=None):
    """Remove `.method( ... )` calls (rule E1: `.context(..)`, `.with_context(..)`) — the call is
    dropped and its receiver kept (identity), or replaced by `to_prefix` applied as a method."""
    n = 0
    while True:
        masked = rustlex.mask(s)
        m = re.search(r'\.\s*%s\s*\(' % re.escape(method), masked)
        if not m:
            return s, n
        ob = m.end() - 1
        cb = rustlex.match_close(masked, ob)
        s = s[:m.start()] + (to_prefix or '') + s[cb + 1:]
        n += 1


class Unit:
    def __init__(self, args):
        self.args = args
        self.id = args['id']
        self.ops = []  # (kind, args, payload)


# Idiom rewrites applied to every unit after its own edits, each only where the idiom occurs.
DEFAULT_OPS = [
    ('edit', {'rule': 'E16', 'find': '|_|', 'count': 'all', 'optional': '1'}, '|_e|'),
    ('edit', {'rule': 'E9', 'find': '$a.as_ptr() as usize - $b.as_ptr() as usize', 'count': 'all', 'optional': '1'}, 'verif_offset_in($a, $b)'),
    ('chain', {'rule': 'E13', 'find': '.chars().count()', 'to': 'verif_chars_count', 'count': 'all', 'optional': '1'}, ''),
    ('chain', {'rule': 'E13', 'find': '.lines().count()', 'to': 'verif_lines_count', 'count': 'all', 'optional': '1'}, ''),
]


_IDENT_RE = re.compile(r'^[A-Za-z_][A-Za-z0-9_]*$')
_BINDERS = None
BINDERS_SEEN = {}   # (group, unit) -> binder list of the text read in this run (gen_baseline writes them out)


def binder_list(s):
    """Names introduced by `let PATTERN [: T] =`, `if let` / `while let PATTERN =` and `for PATTERN in`, in
    source order: the lower-case identifiers of the pattern (constructors, paths, field names before a
    `:` inside a struct pattern and `mut` / `ref` are not binders). Closure parameters and match arms
    are not collected."""
    toks = rustlex.tokens(s)
    out = []
    KW = {'mut', 'ref', 'box', 'true', 'false', 'self', 'Self', 'in', 'if', 'else', 'match'}
    n = len(toks)
    i = 0
    while i < n:
        t = toks[i][0]
        if t in ('let', 'for'):
            stop = '=' if t == 'let' else 'in'
            j = i + 1
            depth = 0
            while j < n:
                u = toks[j][0]
                if u in ('(', '[', '{'):
                    depth += 1
                elif u in (')', ']', '}'):
                    if depth == 0:
                        break
                    depth -= 1
                elif depth == 0 and (u == stop or u == ';' or (t == 'let' and u == ':')):
                    break
                elif _IDENT_RE.match(u) and u not in KW and (u[0].islower() or u[0] == '_') and u != '_':
                    prev = toks[j - 1][0]
                    nxt = toks[j + 1][0] if j + 1 < n else ''
                    if prev not in ('.', '::') and nxt not in ('(', '::', '{', '!') and not (nxt == ':' and depth > 0 and toks[j - 1][0] in ('{', ',')):
                        out.append(u)
                j += 1
            i = j
            continue
        i += 1
    return out


def fold_while_let_next(s):
    """`let mut IT = EXPR; while let Some(PAT) = IT.next() {`  ->  `for PAT in EXPR {`  (the definition of
    `for`, read backwards) for every occurrence where IT is used nowhere else in the text. Returns the new
    text and the list of folded iterator names."""
    folded = []
    while True:
        toks = rustlex.tokens(s)
        n = len(toks)
        done = True
        for i in range(n - 9):
            if [t[0] for t in toks[i:i + 4]] != ['while', 'let', 'Some', '(']:
                continue
            # closing paren of Some( .. )
            depth, j = 0, i + 3
            while j < n:
                if toks[j][0] == '(':
                    depth += 1
                elif toks[j][0] == ')':
                    depth -= 1
                    if depth == 0:
                        break
                j += 1
            if j + 7 >= n or toks[j + 1][0] != '=' or not _IDENT_RE.match(toks[j + 2][0]):
                continue
            it = toks[j + 2][0]
            if [t[0] for t in toks[j + 3:j + 8]] != ['.', 'next', '(', ')', '{']:
                continue
            # the statement directly before: `let mut IT = EXPR ;`
            if i < 1 or toks[i - 1][0] != ';':
                continue
            k = i - 2
            depth = 0
            while k >= 0:
                u = toks[k][0]
                if u in (')', ']', '}'):
                    depth += 1
                elif u in ('(', '[', '{'):
                    if depth == 0:
                        break
                    depth -= 1
                elif depth == 0 and u == ';':
                    break
                k -= 1
            st = k + 1
            if [t[0] for t in toks[st:st + 4]] != ['let', 'mut', it, '=']:
                continue
            if sum(1 for t in toks if t[0] == it) != 2:
                continue
            expr = s[toks[st + 4][1]:toks[i - 1][1]].strip()
            pat = s[toks[i + 4][1]:toks[j][1]].strip()
            s = s[:toks[st][1]] + 'for ' + pat + ' in ' + expr + ' {' + s[toks[j + 7][2]:]
            folded.append(it)
            done = False
            break
        if done:
            return s, folded


def normalise_locals(unit, s, log):
    """Rule E21 (automatic form): the contracts name locals of the real functions. contracts/binders.json
    holds, per unit, the names the unchanged tree gives to its `let` / `for` binders, in order. If the
    current text has the same NUMBER of binders but other names at some positions, those locals are
    alpha-renamed back (a consistent, injective, capture-free renaming of identifier tokens: meaning-
    preserving). Anything else (different count, inconsistent mapping, capture) leaves the text alone."""
    global _BINDERS
    cur = binder_list(s)
    BINDERS_SEEN[(getattr(unit, 'group', None), unit.id)] = cur
    if os.environ.get('VERIF_NO_NORMALISE') == '1':
        return s
    if _BINDERS is None:
        try:
            with open(os.path.join(VERIF, 'contracts', 'binders.json')) as f:
                _BINDERS = json.load(f)
        except Exception:
            _BINDERS = {}
    base = (_BINDERS.get(getattr(unit, 'group', None)) or {}).get(unit.id)
    if base and len(cur) > len(base):
        # Rule E6 read backwards: an explicit iterator variable driven by `while let Some(x) = it.next()`
        # where the unchanged tree has a `for` loop (one binder fewer)
        s2, folded = fold_while_let_next(s)
        if folded and len(binder_list(s2)) == len(base):
            log.append({'unit': unit.id, 'rule': 'E6', 'what': '`let mut %s = E; while let Some(x) = %s.next()` folded back into `for x in E`' % (folded[0], folded[0])})
            s = s2
            cur = binder_list(s)
    if not base or len(base) != len(cur) or base == cur:
        return s
    mp = {}
    sb, sc = set(base), set(cur)
    for c, b in zip(cur, base):
        if c != b and (c in sb or b in sc):
            return s                      # the same names in another ORDER: statements were moved, nothing was renamed
        if mp.setdefault(c, b) != b:
            return s                      # one current name for two baseline names: not a pure renaming
    mp = {c: b for c, b in mp.items() if c != b}
    if not mp:
        return s
    full = {}
    for c, b in zip(cur, base):
        full[c] = b
    if len(set(full.values())) != len(full):
        return s                          # not injective
    toks = rustlex.tokens(s)
    idents = set(t[0] for t in toks if _IDENT_RE.match(t[0]))
    for c, b in mp.items():
        if b in idents and b not in full:  # the target name is in use for something that is not renamed away
            return s
    for k in range(len(toks) - 1, -1, -1):
        t = toks[k]
        if t[0] in mp:
            prev = toks[k - 1][0] if k > 0 else ''
            nxt = toks[k + 1][0] if k + 1 < len(toks) else ''
            if prev in ('.', '::') or nxt == '::':
                continue                  # a field / method / path segment of the same name is not the local
            s = s[:t[1]] + mp[t[0]] + s[t[2]:]
    log.append({'unit': unit.id, 'rule': 'E21', 'what': 'locals alpha-renamed to the names the contracts use: %s' % ', '.join('%s->%s' % kv for kv in sorted(mp.items()))})
    return s


def apply_ops(unit, fn_text, log):
    """Apply the unit's edit list to the function text; return new text."""
    s = normalise_locals(unit, fn_text, log)
    for kind, a, payload in list(unit.ops) + (DEFAULT_OPS if unit.args.get('defaults', '1') == '1' else []):
        payload_txt = payload.rstrip('\n')
        if kind == 'macro':
            s, n = replace_macros(s, a['name'], a.get('to', payload_txt.strip()))
            if n == 0 and a.get('optional') != '1':
                raise ExtractError('%s: macro %s! not found' % (unit.id, a['name']))
            log.append({'unit': unit.id, 'rule': a.get('rule', 'E1'), 'what': '%s!(..) x%d -> %s' % (a['name'], n, a.get('to', payload_txt.strip()))})
        elif kind == 'bind':
            # Rule E21: alpha-renaming of a LOCAL. The ghost code of the unit names a local of the real
            # function (`canon`); the local is identified by the statement that introduces it (`find`,
            # with the wildcard `$v` at the name). If the real text calls it differently, every identifier
            # token with that name inside the unit is renamed to `canon` -- meaning-preserving as long as
            # `canon` is not already in use there (checked).
            spans = rustlex.find_tokens_b(s, a['find'])
            if not spans:
                if a.get('optional') == '1':
                    continue
                raise ExtractError('%s: bind anchor `%s` not found' % (unit.id, a['find']))
            got = spans[0][2].get(a.get('var', 'v'))
            canon = a['canon']
            if got and got != canon:
                toks = rustlex.tokens(s)
                if any(t[0] == canon for t in toks):
                    raise ExtractError('%s: bind: canonical name `%s` already used in the unit' % (unit.id, canon))
                for t in reversed(toks):
                    if t[0] == got:
                        s = s[:t[1]] + canon + s[t[2]:]
                log.append({'unit': unit.id, 'rule': a.get('rule', 'E21'), 'what': 'local `%s` alpha-renamed to `%s` (introduced by `%s`)' % (got, canon, a['find'])})
        elif kind == 'dropcall':
            s, n = replace_method_calls(s, a['name'])
            if n == 0 and a.get('optional') != '1':
                raise ExtractError('%s: method .%s() not found' % (unit.id, a['name']))
            log.append({'unit': unit.id, 'rule': a.get('rule', 'E1'), 'what': '.%s(..) x%d dropped' % (a['name'], n)})
        elif kind == 'edit':
            rule = a.get('rule', '?')
            if 'find' in a:
                spans = rustlex.find_tokens_b(s, a['find'])
                want = a.get('count', '1')
                if not spans and a.get('optional') == '1':
                    log.append({'unit': unit.id, 'rule': rule, 'what': '`%s`: not present (optional)' % a['find']})
                    continue
                if want == 'all':
                    if not spans:
                        raise ExtractError('%s: anchor not found: %s' % (unit.id, a['find']))
                elif len(spans) != int(want):
                    raise ExtractError('%s: anchor `%s` found %d times, expected %s' % (unit.id, a['find'], len(spans), want))
                # non-overlapping, replace from the end; `$name` in the payload is the bound token
                for st, en, b in reversed(spans):
                    rep = payload_txt
                    for name, tok in b.items():
                        rep = rep.replace('$$' + name, tok).replace('$' + name, tok)
                    s = s[:st] + rep + s[en:]
                log.append({'unit': unit.id, 'rule': rule, 'what': '`%s` x%d -> `%s`' % (a['find'], len(spans), ' '.join(payload_txt.split())[:200])})
            elif 'after' in a or 'before' in a:
                key = 'after' if 'after' in a else 'before'
                spans = rustlex.find_tokens(s, a[key])
                nth = int(a.get('nth', '0'))
                want = int(a.get('of', '1'))
                if len(spans) != want:
                    if a.get('optional') == '1':
                        continue
                    raise ExtractError('%s: anchor `%s` found %d times, expected %d' % (unit.id, a[key], len(spans), want))
                st, en = spans[nth]
                pos = en if key == 'after' else st
                s = s[:pos] + '\n' + payload + s[pos:]
                if rule != 'ghost':
                    log.append({'unit': unit.id, 'rule': rule, 'what': 'insert %s `%s`' % (key, a[key])})
            elif a.get('at') == 'body_start':
                # payload inserted right after the opening brace of the function body: an anchor that
                # does not depend on what the first statement is (whole-function units only)
                if not s.lstrip().startswith('{'):
                    raise ExtractError('%s: at=body_start needs a whole-function unit' % unit.id)
                pos = s.index('{') + 1
                s = s[:pos] + '\n' + payload + s[pos:]
                if rule != 'ghost':
                    log.append({'unit': unit.id, 'rule': rule, 'what': 'insert at body start'})
            else:
                raise ExtractError('%s: edit needs find/after/before/at' % unit.id)
        elif kind == 'chain':
            # Method chain -> shim call.  `RECV<anchor>ARGS)<suffix>`  =>  `to(RECV, ARGS)`.
            # RECV is the maximal postfix expression that ends where the anchor starts (a `&` / `*` that
            # follows an operand is a binary operator and ends it: `a && RECV.m()`).
            spans = rustlex.find_tokens(s, a['find'])
            if 'argkind' in a:
                # keep only the occurrences whose first argument token is a string / char literal
                def first_arg_kind(en):
                    rest = s[en:].lstrip()
                    return 'str' if rest[:1] == '"' else ('char' if rest[:1] == "'" else 'other')
                spans = [sp for sp in spans if first_arg_kind(sp[1]) == a['argkind']]
            if not spans and a.get('optional') == '1':
                # optional=1 (as for //@edit): the std call is absent, the text is left as it is
                log.append({'unit': unit.id, 'rule': a.get('rule', 'E3'), 'what': 'optional chain anchor `%s` absent, text left unchanged' % a['find']})
                continue
            want = len(spans) if a.get('count') == 'all' and spans else int(a.get('count', '1'))
            if not spans and a.get('optional') == '1':
                continue
            if len(spans) != want:
                raise ExtractError('%s: chain anchor `%s` found %d times, expected %d' % (unit.id, a['find'], len(spans), want))
            for st, en in reversed(spans):
                toks = rustlex.tokens(s)
                idx = max(k for k, t in enumerate(toks) if t[1] < st)  # last token before anchor
                k = idx
                KW = {'in', 'if', 'else', 'match', 'return', 'let', 'mut', 'while', 'for', 'loop', 'break'}
                masked = rustlex.mask(s)
                while k >= 0:
                    t = toks[k][0]
                    if t in (')', ']'):
                        # jump to matching opener
                        depth = 0
                        while k >= 0:
                            if toks[k][0] in (')', ']'):
                                depth += 1
                            elif toks[k][0] in ('(', '['):
                                depth -= 1
                                if depth == 0:
                                    break
                            k -= 1
                        k -= 1
                        continue
                    if t in ('&', '*') and k >= 1:
                        # `a && RECV`, `a & RECV`, `a * RECV`: a binary operator (its left operand ends in an
                        # identifier / literal / closing bracket), not a borrow or deref of the receiver
                        j = k - 1
                        if t == '&' and toks[j][0] == '&' and toks[j][2] == toks[k][1]:
                            j -= 1
                        if j >= 0 and ((re.match(r'^[A-Za-z_0-9"\']', toks[j][0]) and toks[j][0] not in KW) or toks[j][0] in (')', ']')):
                            break
                    if (re.match(r'^[A-Za-z_0-9]', t) and t not in KW) or t in ('.', ':', '&', '*', '?'):
                        k -= 1
                        continue
                    break
                recv_start = toks[k + 1][1]
                recv = s[recv_start:toks[idx][2]]  # up to the receiver's last token: a comment between it and `.m(` is dropped
                if a['find'].rstrip().endswith('('):
                    ob = en - 1
                    cb = rustlex.match_close(masked, ob)
                    args = s[ob + 1:cb].strip()
                    after = cb + 1
                else:
                    args, after = '', en
                if 'suffix' in a:
                    sp = rustlex.find_tokens(s, a['suffix'], after)
                    if not sp or s[after:sp[0][0]].strip():
                        raise ExtractError('%s: chain suffix `%s` does not follow' % (unit.id, a['suffix']))
                    after = sp[0][1]
                rtxt = recv.strip()
                if rtxt.endswith(']') and not a.get('recvprefix'):
                    rtxt = '&' + rtxt  # an index/slice expression is a place: method calls auto-borrow it
                call = '%s(%s%s%s)' % (a['to'], a.get('recvprefix', '') + rtxt, (', ' + args) if args else '',
                                        (', ' + a['extra']) if 'extra' in a else '')
                s = s[:recv_start] + call + s[after:]
            log.append({'unit': unit.id, 'rule': a.get('rule', 'E3'), 'what': 'RECV%s..%s -> %s(RECV, ..)' % (a['find'], a.get('suffix', ''), a['to'])})
        elif kind == 'forlines':
            # Rule E3: `for (A, B) in EXPR.lines().enumerate() {`  =>
            #   `let VAR = verif_lines_enumerate(EXPR); for pair in it: VAR <payload> { let (A, B) = pair;`
            spans = rustlex.find_tokens(s, '.lines().enumerate()')
            if len(spans) != 1:
                raise ExtractError('%s: forlines: `.lines().enumerate()` found %d times' % (unit.id, len(spans)))
            st, en = spans[0]
            masked = rustlex.mask(s)
            fm = None
            for m in re.finditer(r'\bfor\s*\(', masked[:st]):
                fm = m
            if fm is None:
                raise ExtractError('%s: forlines: no `for (` before the chain' % unit.id)
            pc = rustlex.match_close(masked, fm.end() - 1)
            pat = s[fm.end() - 1:pc + 1]
            m_in = re.compile(r'\s*in\b').match(masked, pc + 1)
            if not m_in:
                raise ExtractError('%s: forlines: expected `in` after the pattern' % unit.id)
            expr = s[m_in.end():st].strip()
            k = en
            while masked[k].isspace():
                k += 1
            if masked[k] != '{':
                raise ExtractError('%s: forlines: expected `{` after the chain' % unit.id)
            var = a.get('var', 'verif_ls')
            if a.get('style') == 'while':
                # for-loops with `continue` are not supported by Verus: index-based while loop, the
                # index is advanced before the body so that `continue` keeps its meaning.
                new_head = ('let %s = verif_lines_enumerate(%s);\nlet mut verif_i: usize = 0;\nwhile verif_i < %s.len()\n%s{\nlet %s = %s[verif_i];\nverif_i = verif_i + 1;'
                            % (var, ' '.join(expr.split()), var, payload, pat, var))
            else:
                new_head = ('let %s = verif_lines_enumerate(%s);\nfor verif_pair in it: %s\n%s{\nlet %s = verif_pair;'
                            % (var, ' '.join(expr.split()), var, payload, pat))
            s = s[:fm.start()] + new_head + s[k + 1:]
            log.append({'unit': unit.id, 'rule': 'E3', 'what': '`for %s in E.lines().enumerate()` -> loop over verif_lines_enumerate(E) (shim: (k, lines(E)[k]) in order)' % pat})
        elif kind == 'letchain':
            # Rule E8: `if let PAT = E && COND { BODY }` (no else)  =>  `if let PAT = E { if COND { BODY } }`
            spans = rustlex.find_tokens(s, a['find'])
            if a.get('count') == 'all' and len(spans) > 1:
                # `count=all`: several identical let-chains; rewrite all but the first here (from the
                # end, so that earlier spans stay valid), the first one by the code below
                for st, en in reversed(spans[1:]):
                    masked = rustlex.mask(s)
                    k, pd = en, 0
                    while k < len(masked) and not (masked[k] == '{' and pd == 0):
                        pd += 1 if masked[k] in '([' else (-1 if masked[k] in ')]' else 0)
                        k += 1
                    cb = rustlex.match_close(masked, k)
                    if re.match(r'\s*else\b', masked[cb + 1:]):
                        raise ExtractError('%s: letchain with else is not pure sugar' % unit.id)
                    s = s[:st] + s[st:en].rstrip()[:-2].rstrip() + ' { if ' + s[en:k].strip() + ' ' + s[k:cb + 1] + ' }' + s[cb + 1:]
                    log.append({'unit': unit.id, 'rule': 'E8', 'what': 'let-chain `%s ..` -> nested if' % ' '.join(a['find'].split())})
                spans = spans[:1]
            if len(spans) != 1:
                raise ExtractError('%s: letchain anchor `%s` found %d times' % (unit.id, a['find'], len(spans)))
            st, en = spans[0]
            if not s[st:en].rstrip().endswith('&&'):
                raise ExtractError('%s: letchain anchor must end with &&' % unit.id)
            masked = rustlex.mask(s)
            k, pd = en, 0
            while k < len(masked):
                ch = masked[k]
                if ch in '([':
                    pd += 1
                elif ch in ')]':
                    pd -= 1
                elif ch == '{' and pd == 0:
                    break
                k += 1
            cb = rustlex.match_close(masked, k)
            if re.match(r'\s*else\b', masked[cb + 1:]):
                raise ExtractError('%s: letchain with else is not pure sugar' % unit.id)
            head = s[st:en].rstrip()[:-2].rstrip()
            cond = s[en:k].strip()
            s = s[:st] + head + ' { if ' + cond + ' ' + s[k:cb + 1] + ' }' + s[cb + 1:]
            log.append({'unit': unit.id, 'rule': 'E8', 'what': 'let-chain `%s ..` -> nested if' % ' '.join(a['find'].split())})
        elif kind == 'whilelet':
            # Rule E6 (pure sugar): `while let PAT = EXPR { BODY }`  =>
            #   `loop <payload: invariant/decreases> { <pre> match EXPR { PAT => { BODY } _ => { break; } } }`
            # `find` is the loop head up to (not including) its `{`; BODY is kept verbatim; `pre=<<..>>`
            # is optional ghost text placed before the `match`.
            spans = rustlex.find_tokens(s, a['find'])
            if len(spans) != 1:
                raise ExtractError('%s: whilelet anchor `%s` found %d times' % (unit.id, a['find'], len(spans)))
            st, en = spans[0]
            masked = rustlex.mask(s)
            m_head = re.compile(r'while\s+let\b').match(masked, st)
            eq = masked.find('=', st, en)
            if not m_head or eq < 0:
                raise ExtractError('%s: whilelet anchor must be `while let PAT = EXPR`' % unit.id)
            pat, expr = s[m_head.end():eq].strip(), s[eq + 1:en].strip()
            k = en
            while masked[k].isspace():
                k += 1
            if masked[k] != '{':
                raise ExtractError('%s: whilelet: expected `{` after the loop head' % unit.id)
            cb = rustlex.match_close(masked, k)
            s = (s[:st] + 'loop\n' + payload + '{ ' + a.get('pre', '') + '\nmatch ' + expr + ' { ' + pat + ' => '
                 + s[k:cb + 1] + ' _ => { break; } } }' + s[cb + 1:])
            log.append({'unit': unit.id, 'rule': 'E6', 'what': '`while let %s = %s` -> loop { match .. { %s => body, _ => break } }' % (pat, expr, pat)})
        elif kind == 'forin':
            # Rule E14 (Rust's own definition of `for`): `for PAT in EXPR { BODY }`  =>
            #   `let mut VAR = [to(]EXPR[)]; loop <payload: invariant/decreases> { match VAR.next() { Some(PAT) => { BODY } None => { break; } } }`
            # `find` is the loop head up to (not including) its `{`; PAT, EXPR and BODY are kept verbatim
            # (`continue`/`break`/`return` inside BODY keep their meaning). `to=<<f>>` wraps EXPR in a shim
            # call (rule E4: consuming hash-map iteration), `var=<<name>>` names the iterator variable.
            spans = rustlex.find_tokens(s, a['find'])
            if len(spans) != 1:
                raise ExtractError('%s: forin anchor `%s` found %d times' % (unit.id, a['find'], len(spans)))
            st, en = spans[0]
            masked = rustlex.mask(s)
            m_head = re.compile(r'for\b').match(masked, st)
            if not m_head:
                raise ExtractError('%s: forin anchor must be `for PAT in EXPR`' % unit.id)
            k, pd, m_in = m_head.end(), 0, None
            while k < en:
                ch = masked[k]
                if ch in '([':
                    pd += 1
                elif ch in ')]':
                    pd -= 1
                elif pd == 0:
                    m_in = re.compile(r'\bin\b').match(masked, k)
                    if m_in and not (masked[k - 1].isalnum() or masked[k - 1] == '_'):
                        break
                    m_in = None
                k += 1
            if m_in is None:
                raise ExtractError('%s: forin: no `in` in the loop head' % unit.id)
            pat, expr = s[m_head.end():m_in.start()].strip(), s[m_in.end():en].strip()
            k = en
            while masked[k].isspace():
                k += 1
            if masked[k] != '{':
                raise ExtractError('%s: forin: expected `{` after the loop head' % unit.id)
            cb = rustlex.match_close(masked, k)
            var = a.get('var', 'verif_it')
            init = (a['to'] + '(' + expr + ')') if 'to' in a else expr
            s = (s[:st] + 'let mut ' + var + ' = ' + init + ';\nloop\n' + payload + '{ match ' + var + '.next() { Some(' + pat + ') => '
                 + s[k:cb + 1] + ' None => { break; } } }' + s[cb + 1:])
            log.append({'unit': unit.id, 'rule': a.get('rule', 'E14'), 'what': '`for %s in %s` -> let mut %s = %s; loop { match %s.next() { Some(%s) => body, None => break } }' % (pat, expr, var, init, var, pat)})
        elif kind == 'foridx':
            # Rule E18: `for PAT in &EXPR { BODY }` (shared iteration over a Vec/slice: yields &EXPR[0],
            # &EXPR[1], .. in order, std doc of `slice::Iter`) whose BODY uses `continue`, which Verus
            # rejects inside `for`  =>
            #   `let mut IDX: usize = 0; while IDX < (EXPR).len() <payload> { let PAT = &(EXPR)[IDX]; IDX = IDX + 1; BODY }`
            # The index is advanced before BODY so that `continue` keeps its meaning. PAT, EXPR, BODY verbatim.
            spans = rustlex.find_tokens(s, a['find'])
            nth, want = int(a.get('nth', '0')), int(a.get('of', '1'))
            if len(spans) != want:
                raise ExtractError('%s: foridx anchor `%s` found %d times, expected %d' % (unit.id, a['find'], len(spans), want))
            st, en = spans[nth]
            masked = rustlex.mask(s)
            m_head = re.compile(r'for\b').match(masked, st)
            m_in = re.compile(r'\bin\s*&').search(masked, st, en)
            if not m_head or not m_in:
                raise ExtractError('%s: foridx anchor must be `for PAT in &EXPR`' % unit.id)
            pat, expr = s[m_head.end():m_in.start()].strip(), ' '.join(s[m_in.end():en].split())
            k = en
            while masked[k].isspace():
                k += 1
            if masked[k] != '{':
                raise ExtractError('%s: foridx: expected `{` after the loop head' % unit.id)
            idx = a.get('idx', 'verif_j')
            s = (s[:st] + 'let mut %s: usize = 0;\nwhile %s < (%s).len()\n%s{\nlet %s = &(%s)[%s];\n%s = %s + 1;'
                 % (idx, idx, expr, payload, pat, expr, idx, idx, idx) + s[k + 1:])
            log.append({'unit': unit.id, 'rule': a.get('rule', 'E18'), 'what': '`for %s in &%s` -> index loop `%s` (element %s[%s] bound, index advanced, then the body verbatim)' % (pat, expr, idx, expr, idx)})
        elif kind == 'replaceslice':
            # Rule SLICE-CALL: the statement range that a slice unit with the same anchors verifies as a
            # function of its own is replaced by the payload (a call of that function); everything
            # outside the range stays verbatim.
            if 'of' in a:
                # `of=<group>:<unit>`: take the anchors from the slice unit itself, so that the replaced
                # range is by construction the verified one
                ua = unit_args_of(*a['of'].split(':', 1))
                a = dict(a, **{'from': ua['slice_from'], 'to_block_end': ua.get('slice_to_block_end', '0')})
                for k_from, k_to in (('slice_until', 'until'), ('slice_through', 'through')):
                    if k_from in ua:
                        a[k_to] = ua[k_from]
                # the call must pass, name by name, the variables the wrapper declares as parameters
                # (the slice's free variables): `f(a, &mut b)` against `fn f(a: T, b: &mut U)`
                wtxt = unit_contract_of(*a['of'].split(':', 1))[0]
                wm = re.search(r'\bfn\s+([A-Za-z_0-9]+)', wtxt)
                wmask = rustlex.mask(wtxt)
                wo = wmask.find('(', wm.end())
                params = [x.split(':')[0].strip() for x in split_top(wtxt[wo + 1:rustlex.match_close(wmask, wo)]) if x.strip()]
                cm = re.search(r'\b%s\s*\(' % re.escape(wm.group(1)), payload_txt)
                if not cm:
                    raise ExtractError('%s: replaceslice payload does not call %s' % (unit.id, wm.group(1)))
                co = cm.end() - 1
                cargs = [re.sub(r'^&\s*(mut\s+)?', '', x.strip()) for x in split_top(payload_txt[co + 1:rustlex.match_close(rustlex.mask(payload_txt), co)]) if x.strip()]
                if cargs != params:
                    raise ExtractError('%s: replaceslice call arguments %s differ from the wrapper parameters %s' % (unit.id, cargs, params))
            st, en = slice_region(unit.id, s, a['from'], a.get('to_block_end') == '1', a.get('until'), a.get('through'))
            s = s[:st] + payload_txt.strip() + '\n' + s[en:]
            log.append({'unit': unit.id, 'rule': 'SLICE-CALL', 'what': ('arguments = wrapper parameters by name; ' if 'of' in a else '') + 'statements `%s` .. (%s) replaced by `%s`' % (
                a['from'], 'to block end' if a.get('to_block_end') == '1' else ('until `%s`' % a['until'] if 'until' in a else 'through `%s`' % a.get('through')),
                ' '.join(payload_txt.split())[:200])})
        elif kind == 'closure':
            # Closure literal -> same closure with typed parameters, named result and contract
            # (rule E12). The closure *body* is kept verbatim; an expression body gets braces.
            spans = rustlex.find_tokens(s, a['find'])
            nth = int(a.get('nth', '0'))
            want = int(a.get('of', '1'))
            if not spans and a.get('optional') == '1':
                continue
            if len(spans) != want:
                raise ExtractError('%s: closure anchor `%s` found %d times, expected %d' % (unit.id, a['find'], len(spans), want))
            st, en = spans[nth]
            masked = rustlex.mask(s)
            k = en
            while masked[k].isspace():
                k += 1
            if masked[k] == '{':
                bs, be = k, rustlex.match_close(masked, k) + 1
                body_txt = s[bs:be]
            else:
                # expression body: up to the `,` or `)` that closes the enclosing call at depth 0
                depth, j = 0, k
                while j < len(masked):
                    ch = masked[j]
                    if ch in '([{':
                        depth += 1
                    elif ch in ')]}':
                        if depth == 0:
                            break
                        depth -= 1
                    elif ch in ',;' and depth == 0:  # `;`: closure bound by a `let`
                        break
                    j += 1
                bs, be = k, j
                body_txt = '{ ' + s[bs:be].strip() + ' }'
            head = a['params'] + ' -> (' + a['ret'] + ')\n' + payload.rstrip('\n') + '\n'
            if 'bodyprefix' in a:
                # a pattern parameter (`|(k, v)|`) is not accepted by Verus: the parameter is named in
                # `params` and the original pattern is bound by a `let` at the start of the verbatim body
                body_txt = '{ ' + a['bodyprefix'] + ' ' + body_txt + ' }'
            s = s[:st] + head + body_txt + s[be:]
            log.append({'unit': unit.id, 'rule': 'E12', 'what': 'closure `%s` given contract (%s)' % (a['find'], a['ret'])})
        elif kind == 'wrap':
            # Bracketed expression -> shim call, inner text kept verbatim:
            #   `<find tokens, the last one an opening bracket> INNER <matching closer>`  =>  `<to> INNER <close>`
            # e.g. find=<<text[..>> to=<<verif_str_prefix(text.as_str(),>> close=<<)>> turns `text[..n + 1]`
            # into `verif_str_prefix(text.as_str(), n + 1)`; INNER still comes from /repo.
            spans = rustlex.find_tokens(s, a['find'])
            want = int(a.get('count', '1'))
            if len(spans) != want:
                raise ExtractError('%s: wrap anchor `%s` found %d times, expected %d' % (unit.id, a['find'], len(spans), want))
            for st, en in reversed(spans):
                masked = rustlex.mask(s)
                if masked[en - 1] not in '([{':
                    raise ExtractError('%s: wrap anchor must end with an opening bracket' % unit.id)
                cb = rustlex.match_close(masked, en - 1)
                inner_from = en
                if 'skip' in a:
                    # tokens that must directly follow the bracket and are dropped (e.g. the `..` of `[..n]`)
                    sk = rustlex.find_tokens(s, a['skip'], en, cb)
                    if not sk or s[en:sk[0][0]].strip():
                        raise ExtractError('%s: wrap: `%s` does not follow the bracket' % (unit.id, a['skip']))
                    inner_from = sk[0][1]
                s = s[:st] + a['to'] + s[inner_from:cb] + a.get('close', ')') + s[cb + 1:]
            log.append({'unit': unit.id, 'rule': a.get('rule', 'E13'), 'what': '`%s INNER %s` x%d -> `%s INNER %s`' % (a['find'], {'(': ')', '[': ']', '{': '}'}[a['find'].rstrip()[-1]], want, a['to'], a.get('close', ')'))})
        elif kind == 'strslice':
            # Rule E13 for `str` range indexing (every occurrence, generic in receiver and bounds):
            #   `&RECV[A..]` -> `<from>(RECV, A)`, `&RECV[..B]` -> `<to>(RECV, B)`, `&RECV[A..B]` -> `<range>(RECV, A, B)`
            # RECV is the maximal postfix expression before `[` (as for //@chain); one leading `&` of it is
            # dropped (the shim returns `&str`); A and B are kept verbatim. Index expressions without a
            # top-level `..` (and `..=`) are left alone. `optional=1`: no occurrence is not an error.
            n_done = 0
            while True:
                toks = rustlex.tokens(s)
                masked = rustlex.mask(s)
                hit = None
                for k in range(len(toks) - 1, 0, -1):
                    if toks[k][0] != '[' or not (re.match(r'^[A-Za-z_0-9]', toks[k - 1][0]) or toks[k - 1][0] in (')', ']')):
                        continue
                    if toks[k - 1][0] in ('in', 'return', 'let', 'mut', 'else', 'match', 'if'):
                        continue
                    cb = rustlex.match_close(masked, toks[k][1])
                    depth, dots = 0, None
                    for j in range(k + 1, len(toks)):
                        if toks[j][1] >= cb:
                            break
                        if toks[j][0] in '([{':
                            depth += 1
                        elif toks[j][0] in ')]}':
                            depth -= 1
                        elif (depth == 0 and toks[j][0] == '.' and toks[j + 1][0] == '.' and toks[j + 1][1] == toks[j][2]
                              and toks[j + 2][0] != '=' and (j == k + 1 or toks[j - 1][0] != '.' or toks[j - 1][2] != toks[j][1])):
                            dots = (toks[j][1], toks[j + 1][2])
                            break
                    if dots:
                        hit = (k, cb, dots)
                        break
                if hit is None:
                    break
                k, cb, dots = hit
                KW = {'in', 'if', 'else', 'match', 'return', 'let', 'mut', 'while', 'for', 'loop', 'break'}
                i = k - 1
                while i >= 0:
                    t = toks[i][0]
                    if t in (')', ']'):
                        depth = 0
                        while i >= 0:
                            if toks[i][0] in (')', ']'):
                                depth += 1
                            elif toks[i][0] in ('(', '['):
                                depth -= 1
                                if depth == 0:
                                    break
                            i -= 1
                        i -= 1
                        continue
                    if (re.match(r'^[A-Za-z_0-9]', t) and t not in KW) or t in ('.', ':', '&', '*', '?'):
                        i -= 1
                        continue
                    break
                recv_start = toks[i + 1][1]
                recv = s[recv_start:toks[k][1]].strip()
                if recv.startswith('&'):
                    recv = recv[1:].strip()
                lo, hi = s[toks[k][2]:dots[0]].strip(), s[dots[1]:cb].strip()
                if lo and hi:
                    call = '%s(%s, %s, %s)' % (a['range'], recv, lo, hi)
                elif lo:
                    call = '%s(%s, %s)' % (a['from'], recv, lo)
                elif hi:
                    call = '%s(%s, %s)' % (a['to'], recv, hi)
                else:
                    raise ExtractError('%s: strslice: full range `[..]` is not handled' % unit.id)
                s = s[:recv_start] + call + s[cb + 1:]
                n_done += 1
            if n_done == 0 and a.get('optional') != '1':
                raise ExtractError('%s: strslice: no `X[A..B]` expression found' % unit.id)
            log.append({'unit': unit.id, 'rule': a.get('rule', 'E13'), 'what': 'str range indexing `&X[A..]`/`&X[..B]`/`&X[A..B]` x%d -> %s(X, A) / %s(X, B) / %s(X, A, B)' % (n_done, a.get('from'), a.get('to'), a.get('range'))})
        else:
            raise ExtractError('unknown op ' + kind)
    return s


def slice_region(uid, body, from_anchor, to_block_end, until, through):
    """(start, end) of a statement range inside `body`: from anchor `from_anchor` to the end of the
    innermost enclosing block / up to anchor `until` / through the block statement starting at anchor
    `through`. Same computation as for `slice_from` units (kept in step with it: rule SLICE-CALL replaces
    exactly what rule SLICE verifies)."""
    sp = rustlex.find_tokens(body, from_anchor)
    if len(sp) != 1:
        raise ExtractError('%s: slice start `%s` found %d times' % (uid, from_anchor, len(sp)))
    st = sp[0][0]
    mb = rustlex.mask(body)
    if to_block_end:
        depth, k = 0, st
        while k < len(mb):
            if mb[k] == '{':
                depth += 1
            elif mb[k] == '}':
                if depth == 0:
                    break
                depth -= 1
            k += 1
        return st, k
    if until:
        sp2 = [x for x in rustlex.find_tokens(body, until) if x[0] > st]
        if len(sp2) < 1:
            raise ExtractError('%s: slice end `%s` not found' % (uid, until))
        return st, sp2[0][0]
    sp2 = [x for x in rustlex.find_tokens(body, through) if x[0] >= st]
    if len(sp2) < 1:
        raise ExtractError('%s: slice end `%s` not found' % (uid, through))
    k, pd = sp2[0][0], 0
    while k < len(mb):
        ch = mb[k]
        if ch in '([':
            pd += 1
        elif ch in ')]':
            pd -= 1
        elif ch == '{' and pd == 0:
            break
        k += 1
    return st, rustlex.match_close(mb, k) + 1


def split_top(txt):
    """split at commas that are outside every bracket (angle brackets of generics included)"""
    out, depth, cur = [], 0, ''
    for k, ch in enumerate(txt):
        if ch in '([{<':
            depth += 1
        elif ch in ')]}' or (ch == '>' and txt[k - 1:k] != '-'):
            depth -= 1
        if ch == ',' and depth == 0:
            out.append(cur)
            cur = ''
        else:
            cur += ch
    out.append(cur)
    return out


def unit_args_of(group, uid):
    """key/value arguments of the `//@unit id=<uid>` directive of contracts/groups/<group>.rs"""
    path = os.path.join(VERIF, 'contracts', 'groups', group + '.rs')
    with open(path, encoding='utf-8') as f:
        for l in f.read().split('\n'):
            t = l.strip()
            if t.startswith('//@unit ') and parse_kv(t[len('//@unit '):]).get('id') == uid:
                return parse_kv(t[len('//@unit '):])
    raise ExtractError('unit %s not found in group %s' % (uid, group))


def unit_contract_of(group, uid):
    """(signature-and-contract text) of unit `uid` of contracts/groups/<group>.rs: the `//@wrapper`
    payload of a slice unit, or the repo signature (named return) + `//@contract` payload."""
    path = os.path.join(VERIF, 'contracts', 'groups', group + '.rs')
    with open(path, encoding='utf-8') as f:
        ls = f.read().split('\n')
    k = 0
    while k < len(ls):
        t = ls[k].strip()
        if t.startswith('//@unit ') and parse_kv(t[len('//@unit '):]).get('id') == uid:
            break
        k += 1
    if k == len(ls):
        raise ExtractError('stubof: unit %s not found in group %s' % (uid, group))
    ua = parse_kv(ls[k].strip()[len('//@unit '):])
    parts = {}
    k += 1
    while k < len(ls) and ls[k].strip() != '//@end':
        t = ls[k].strip()
        if t.startswith('//@'):
            w = t[3:].split(' ')[0]
            buf = []
            k += 1
            while k < len(ls) and not ls[k].lstrip().startswith('//@'):
                buf.append(ls[k])
                k += 1
            if w in ('wrapper', 'contract', 'sig'):
                parts[w] = '\n'.join(buf) + '\n'
            continue
        k += 1
    if 'wrapper' in parts:
        return parts['wrapper'].rstrip('\n') + '\n', [path]
    src = read_repo(ua['file'])
    fnspec = ua['fn']
    impl_header, fname = (fnspec.rpartition('::')[0], fnspec.rpartition('::')[2]) if '::' in fnspec else (None, fnspec)
    fs, ob, cb = find_fn(src, fname, impl_header)
    if 'sig' in parts:
        sig = parts['sig']
    else:
        sig = strip_vis_and_attrs(src[fs:ob])
        if 'ret' in ua:
            sig = name_return(sig, ua['ret'])
    return sig.rstrip() + '\n' + parts.get('contract', ''), [path, ua['file']]


def name_return(sig, ret):
    """`fn f(..) -> T` => `fn f(..) -> (ret: T)` (Verus needs a name to state postconditions)."""
    masked = rustlex.mask(sig)
    # find top-level `->` outside parens/brackets/angle brackets of generics: scan paren depth only,
    # take the last `->` at paren depth 0 that follows the parameter list.
    pd, arrow = 0, -1
    i = 0
    seen_params = False
    while i < len(masked):
        ch = masked[i]
        if ch in '([':
            pd += 1
        elif ch in ')]':
            pd -= 1
            if pd == 0 and ch == ')' and not seen_params:
                seen_params = True
        elif seen_params and pd == 0 and masked.startswith('->', i):
            arrow = i
            break
        i += 1
    if arrow < 0:
        return sig  # unit return
    w = re.search(r'\bwhere\b', masked[arrow:])
    end = arrow + w.start() if w else len(sig)
    ty = sig[arrow + 2:end].strip()
    return sig[:arrow] + '-> (%s: %s)' % (ret, ty) + ('\n' + sig[end:] if w else '')


# ------------------------------------------------------------------------------------------
# template expansion


def expand(group_path):
    """Returns dict(text=..., labels={line: label}, units={id: (first_line, last_line)},
    log=[...], diffs={unit: diff_text}, sources=[files read])."""
    with open(group_path, encoding='utf-8') as f:
        lines = f.read().split('\n')
    out = []
    log = []
    diffs = {}
    units = {}
    body_lines = {}
    sources = set()
    i = 0

    def emit(txt):
        out.extend(txt.split('\n'))

    def payload_from(j):
        buf = []
        while j < len(lines) and not lines[j].lstrip().startswith('//@'):
            buf.append(lines[j])
            j += 1
        return '\n'.join(buf) + ('\n' if buf else ''), j

    while i < len(lines):
        ln = lines[i]
        st = ln.strip()
        if not st.startswith('//@'):
            out.append(ln)
            i += 1
            continue
        d = st[3:].strip()
        word, _, rest = d.partition(' ')
        if word == 'include':
            p = os.path.join(VERIF, 'contracts', rest.strip())
            sub = expand(p)
            base = len(out)
            out.extend(sub['text'].split('\n'))
            log.extend(sub['log'])
            diffs.update(sub['diffs'])
            sources.update(sub['sources'])
            for uid, (a, b, f) in sub['units'].items():
                units[uid] = (a + base, b + base, f)
            for uid, bl in sub.get('body_lines', {}).items():
                body_lines[uid] = bl + base
            i += 1
        elif word == 'item':
            a = parse_kv(rest)
            src = read_repo(a['file'])
            sources.add(a['file'])
            s, e = find_item(src, a['kind'], a['name'])
            txt = pubify_item(strip_vis_and_attrs(src[s:e]))
            if a['kind'] == 'const' and re.search(r'\bconst\s+\w+\s*:\s*&\s*(?!\')', txt):
                # Rust reference, lifetime elision: "an elided lifetime in the type of a constant is 'static".
                # Verus' macro needs it spelled out (it turns the constant into a function).
                txt = re.sub(r'(\bconst\s+\w+\s*:\s*)&\s*(?!\')', r"\1&'static ", txt, count=1)
                log.append({'unit': 'item:' + a['name'], 'rule': 'E11', 'what': "elided lifetime of the constant's reference type spelled `'static`"})
            # struct fields need to be visible in spec fns of the same module: keep private, fine
            first = len(out) + 1
            emit(txt)
            log.append({'unit': 'item:' + a['name'], 'rule': 'E11', 'what': 'attributes/visibility stripped'})
            i += 1
        elif word == 'unit':
            a = parse_kv(rest)
            unit = Unit(a)
            unit.group = os.path.basename(group_path)[:-3]
            i += 1
            contract = ''
            sig_override = None
            wrapper = None
            tail = ''
            head = ''
            while i < len(lines):
                st2 = lines[i].strip()
                if not st2.startswith('//@'):
                    i += 1
                    continue
                d2 = st2[3:].strip()
                w2, _, r2 = d2.partition(' ')
                if w2 == 'end':
                    i += 1
                    break
                if w2 == 'contract':
                    contract, i = payload_from(i + 1)
                elif w2 == 'sig':
                    pl, i = payload_from(i + 1)
                    sig_override = (parse_kv(r2), pl)
                elif w2 == 'wrapper':
                    wrapper, i = payload_from(i + 1)
                elif w2 == 'tail':
                    tail, i = payload_from(i + 1)
                elif w2 == 'head':
                    head, i = payload_from(i + 1)
                elif w2 in ('edit', 'bind', 'macro', 'dropcall', 'chain', 'closure', 'forlines', 'letchain', 'wrap', 'whilelet', 'forin', 'foridx', 'replaceslice', 'strslice'):
                    pl, i = payload_from(i + 1)
                    unit.ops.append((w2, parse_kv(r2), pl))
                else:
                    raise ExtractError('unknown sub-directive //@%s in unit %s' % (w2, unit.id))
            src = read_repo(a['file'])
            sources.add(a['file'])
            fnspec = a['fn']
            if '::' in fnspec:
                impl_header, _, fname = fnspec.rpartition('::')
            else:
                impl_header, fname = None, fnspec
            try:
                fs, ob, cb = find_fn(src, fname, impl_header)
            except ExtractError as e:
                if a.get('optional') == '1' and 'found 0 candidates' in str(e):
                    # `optional=1`: a function that a text of /repo does not have (e.g. a helper introduced by a
                    # later repair) is skipped: nothing is emitted, callers that need it fail to compile (undecided)
                    log.append({'unit': unit.id, 'rule': 'OPTIONAL-UNIT', 'what': 'fn %s is absent from %s: unit skipped' % (fnspec, a['file'])})
                    continue
                raise
            real = src[fs:cb + 1]
            sig, body = src[fs:ob], src[ob:cb + 1]
            if 'slice_closure' in a:
                # A slice that is the whole BODY of a closure literal: `slice_closure=<<|node, $s|>>` names the
                # closure by its parameter list (wildcards allowed); the slice is the contents of the closure's
                # block, or - for an expression body - the expression up to the `,` / `)` that ends the call
                # argument. Independent of how the body begins, so a change of its first statement is verified
                # instead of losing the anchor. `//@head` payload is placed before the body, `//@tail` after
                # it (e.g. `let verif_r = {` ... `}; proof { .. } verif_r`).
                sp = rustlex.find_tokens(body, a['slice_closure'])
                if len(sp) != 1:
                    raise ExtractError('%s: slice_closure `%s` found %d times' % (unit.id, a['slice_closure'], len(sp)))
                mb = rustlex.mask(body)
                k = sp[0][1]
                while mb[k].isspace():
                    k += 1
                if mb[k] == '{':
                    st, en = k + 1, rustlex.match_close(mb, k)
                else:
                    depth, j = 0, k
                    while j < len(mb):
                        ch = mb[j]
                        if ch in '([{':
                            depth += 1
                        elif ch in ')]}':
                            if depth == 0:
                                break
                            depth -= 1
                        elif ch in ',;' and depth == 0:
                            break
                        j += 1
                    st, en = k, j
                if wrapper is None:
                    raise ExtractError('%s: slice needs //@wrapper' % unit.id)
                real = body[st:en]
                body2 = apply_ops(unit, strip_vis_and_attrs(real), log)
                gen = wrapper.rstrip('\n') + '\n{\n' + head + body2 + '\n' + tail + '}\n'
                first = len(out) + 1
                emit(gen)
                units[unit.id] = (first, len(out), a['file'] + '::' + fnspec + ' [closure body]')
                body_lines[unit.id] = first + wrapper.rstrip('\n').count('\n') + 1
                log.append({'unit': unit.id, 'rule': 'SLICE', 'what': 'body of the closure `%s` of fn %s verified as a function of its parameters (head: `%s`)' % (
                    a['slice_closure'], fnspec, ' '.join(head.split())[:80])})
                diffs[unit.id] = ''.join(difflib.unified_diff(
                    real.splitlines(True), gen.splitlines(True),
                    'repo:' + a['file'] + '::' + fnspec + ' [closure body]', 'generated:' + unit.id, n=1))
                continue
            if 'slice_from' in a:
                # locals of the WHOLE function are normalised first: the slice anchors and the wrapper's
                # parameters (the slice's free variables) use the names of the unchanged tree
                _fu = Unit({'id': unit.id + '#fn'})
                _fu.group = unit.group
                body = normalise_locals(_fu, body, log)
                # A slice: the statements from anchor `slice_from` through the end of the block
                # statement that starts at anchor `slice_through` (a loop or an `if`), verified as a
                # function of its own whose parameters are the slice's free variables (the wrapper
                # signature comes from the template; DESIGN section 4).
                sp = rustlex.find_tokens(body, a['slice_from'])
                if len(sp) != 1:
                    raise ExtractError('%s: slice_from `%s` found %d times' % (unit.id, a['slice_from'], len(sp)))
                st = sp[0][0]
                if a.get('slice_to_block_end') == '1':
                    # to the end of the innermost block that encloses the start anchor
                    mb = rustlex.mask(body)
                    depth, k = 0, st
                    while k < len(mb):
                        if mb[k] == '{':
                            depth += 1
                        elif mb[k] == '}':
                            if depth == 0:
                                break
                            depth -= 1
                        k += 1
                    en = k
                elif 'slice_until' in a:
                    sp2 = [x for x in rustlex.find_tokens(body, a['slice_until']) if x[0] > st]
                    if len(sp2) < 1:
                        raise ExtractError('%s: slice_until `%s` not found' % (unit.id, a['slice_until']))
                    en = sp2[0][0]
                else:
                    sp2 = [x for x in rustlex.find_tokens(body, a['slice_through']) if x[0] >= st]
                    if len(sp2) < 1:
                        raise ExtractError('%s: slice_through `%s` not found' % (unit.id, a['slice_through']))
                    mb = rustlex.mask(body)
                    k, pd = sp2[0][0], 0
                    while k < len(mb):
                        ch = mb[k]
                        if ch in '([':
                            pd += 1
                        elif ch in ')]':
                            pd -= 1
                        elif ch == '{' and pd == 0:
                            break
                        k += 1
                    en = rustlex.match_close(mb, k) + 1
                if wrapper is None:
                    raise ExtractError('%s: slice needs //@wrapper' % unit.id)
                real = body[st:en]
                body2 = apply_ops(unit, strip_vis_and_attrs(real), log)
                gen = wrapper.rstrip('\n') + '\n{\n' + body2 + '\n' + tail + '}\n'
                first = len(out) + 1
                emit(gen)
                units[unit.id] = (first, len(out), a['file'] + '::' + fnspec + ' [slice]')
                body_lines[unit.id] = first + wrapper.rstrip('\n').count('\n') + 1
                log.append({'unit': unit.id, 'rule': 'SLICE', 'what': 'statements `%s` .. of fn %s verified as a function of their free variables' % (a['slice_from'], fnspec)})
                diffs[unit.id] = ''.join(difflib.unified_diff(
                    real.splitlines(True), gen.splitlines(True),
                    'repo:' + a['file'] + '::' + fnspec + ' [slice]', 'generated:' + unit.id, n=1))
                continue
            if sig_override is not None:
                sa, spl = sig_override
                if [t[0] for t in rustlex.tokens(sig)] != [t[0] for t in rustlex.tokens(sa['was'])]:
                    raise ExtractError('%s: signature changed: `%s`' % (unit.id, ' '.join(sig.split())))
                sig = spl.rstrip('\n') + '\n'
                log.append({'unit': unit.id, 'rule': sa.get('rule', 'E7'), 'what': 'signature `%s` -> `%s`' % (' '.join(sa['was'].split()), ' '.join(spl.split()))})
            else:
                sig = strip_vis_and_attrs(sig)
                if 'ret' in a:
                    sig = name_return(sig, a['ret'])
            if 'rename' in a:
                sig = re.sub(r'\bfn\s+%s\b' % re.escape(fname), 'fn ' + a['rename'], sig, count=1)
                log.append({'unit': unit.id, 'rule': 'E7', 'what': 'fn renamed %s -> %s' % (fname, a['rename'])})
            body2 = apply_ops(unit, strip_vis_and_attrs(body), log)
            gen = sig.rstrip() + '\n' + contract + body2
            first = len(out) + 1
            emit(gen)
            units[unit.id] = (first, len(out), a['file'] + '::' + fnspec)
            body_lines[unit.id] = first + (sig.rstrip() + '\n' + contract).count('\n')
            # extraction diff: real text vs generated text
            diffs[unit.id] = ''.join(difflib.unified_diff(
                real.splitlines(True), gen.splitlines(True),
                'repo:' + a['file'] + '::' + fnspec, 'generated:' + unit.id, n=1))
        elif word == 'rows':
            # Rule TABLE: the rows `(A, B)` of a const array `const NAME: .. = &[ (A, B), ... ];` of /repo are
            # pasted one per statement as `CALL(A, B');` where B' is B without the `||` of a
            # zero-argument closure literal (the closure is applied: function-pointer types are outside
            # Verus' subset). A and B are verbatim repo text; CALL comes from the template.
            a = parse_kv(rest)
            src = read_repo(a['file'])
            sources.add(a['file'])
            s0, e0 = find_item(src, 'const', a['const'])
            item = src[s0:e0]
            mi = rustlex.mask(item)
            ob = mi.index('[', mi.index('='))
            cb = rustlex.match_close(mi, ob)
            inner, minner = item[ob + 1:cb], mi[ob + 1:cb]
            rows, k = [], 0
            while k < len(minner):
                if minner[k] == '(':
                    c = rustlex.match_close(minner, k)
                    rows.append((inner[k + 1:c], minner[k + 1:c]))
                    k = c + 1
                else:
                    k += 1
            if not rows:
                raise ExtractError('rows: no rows found in const %s' % a['const'])
            first = len(out) + 1
            for txt, mtxt in rows:
                # split at the first top-level comma
                depth, cpos = 0, -1
                for q, ch in enumerate(mtxt):
                    if ch in '([{':
                        depth += 1
                    elif ch in ')]}':
                        depth -= 1
                    elif ch == ',' and depth == 0:
                        cpos = q
                        break
                if cpos < 0:
                    raise ExtractError('rows: row without two components in %s' % a['const'])
                left, right = txt[:cpos].strip(), txt[cpos + 1:].strip().rstrip(',').strip()
                if right.startswith('||'):
                    right = right[2:].strip()
                emit('    %s(%s, %s%s);' % (a['call'], left, ' '.join(right.split()), (', ' + a['extra']) if 'extra' in a else ''))
            units['TBL.' + a['const']] = (first, len(out), a['file'] + '::const ' + a['const'])
            log.append({'unit': 'TBL.' + a['const'], 'rule': 'TABLE', 'what': '%d rows of const %s pasted as %s(name, applied-closure) statements' % (len(rows), a['const'], a['call'])})
            i += 1
        elif word == 'stubof':
            # Rule SLICE-CALL (callee side): an `external_body` function that carries, textually, the
            # contract another group proves for the same statements / function of /repo.
            a = parse_kv(rest)
            try:
                txt, srcs = unit_contract_of(a['group'], a['unit'])
            except ExtractError as e:
                if a.get('optional') == '1' and 'found 0 candidates' in str(e):
                    # the unit's function is absent from this text of /repo (see `//@unit .. optional=1`): no stub
                    _extra, i = payload_from(i + 1)
                    _xl = _extra.split('\n')
                    _cut = next((k for k, l in enumerate(_xl) if not l.strip()), len(_xl))
                    emit('\n'.join(_xl[_cut:]))   # what follows the first blank line is ordinary template text
                    log.append({'unit': 'stub:' + a['unit'], 'rule': 'OPTIONAL-UNIT', 'what': 'function of unit %s of group %s is absent: no stub emitted' % (a['unit'], a['group'])})
                    continue
                raise
            extra, i = payload_from(i + 1)
            # the extra clauses end at the first blank line; what follows is ordinary template text
            ex_lines = extra.split('\n')
            cut = next((k for k, l in enumerate(ex_lines) if not l.strip()), len(ex_lines))
            extra, rest_txt = '\n'.join(ex_lines[:cut]) + ('\n' if cut else ''), '\n'.join(ex_lines[cut:])
            if extra.lstrip().startswith('requires'):
                # extra PRECONDITIONS (obligations of the calling group at the call site; they add nothing
                # to the trusted base): `requires` must precede `ensures`, so they are spliced in front of
                # the unit's own contract, which then must not have a `requires` of its own
                tl = txt.split('\n')
                if any(l.strip().startswith('requires') for l in tl):
                    raise ExtractError('stubof %s: extra `requires` on a unit that has preconditions of its own' % a['unit'])
                k_ens = next((k for k, l in enumerate(tl) if l.strip().startswith('ensures')), len(tl) - 1)
                txt, extra = '\n'.join(tl[:k_ens]) + '\n' + extra + '\n'.join(tl[k_ens:]), ''
                if not txt.endswith('\n'):
                    txt += '\n'
                log.append({'unit': 'stub:' + a['unit'], 'rule': 'SLICE-CALL', 'what': 'extra preconditions spliced before the contract of unit %s of group %s: %s' % (
                    a['unit'], a['group'], ' '.join('\n'.join(ex_lines[:cut]).split())[:400])})
            emit('#[verifier::external_body]\n' + txt + extra + '{ unimplemented!() }\n' + rest_txt)
            log.append({'unit': 'stub:' + a['unit'], 'rule': 'SLICE-CALL', 'what': 'external_body stub with the contract of unit %s of group %s%s' % (
                a['unit'], a['group'], (' + %d extra line(s): %s' % (len(extra.strip().split('\n')), ' '.join(extra.split())[:300])) if extra.strip() else '')})
        elif word == 'copyfrom':
            a = parse_kv(rest)
            with open(os.path.join(VERIF, 'contracts', a['file']), encoding='utf-8') as f:
                cl = f.read().split('\n')
            k0 = next((k for k, l in enumerate(cl) if l.startswith(a['from'])), None)
            if k0 is None:
                raise ExtractError('copyfrom: no line starts with `%s` in %s' % (a['from'], a['file']))
            hits = [k for k in range(k0 + 1, len(cl)) if cl[k].startswith(a['until'])]
            nth = int(a.get('until_nth', '1'))
            if len(hits) < nth:
                raise ExtractError('copyfrom: no %d-th line starting with `%s` after the start in %s' % (nth, a['until'], a['file']))
            region = cl[k0:hits[nth - 1]]
            if any(l.lstrip().startswith('//@') for l in region):
                raise ExtractError('copyfrom: the copied region of %s contains directives' % a['file'])
            out.extend(region)
            log.append({'unit': 'copy:' + a['file'], 'rule': 'COPY', 'what': 'template lines %d..%d (`%s` .. `%s`) copied' % (k0 + 1, hits[nth - 1], a['from'], a['until'])})
            i += 1
        else:
            raise ExtractError('unknown directive //@' + word)
    text = '\n'.join(out)
    labels = {}
    for k, l in enumerate(text.split('\n')):
        m = re.search(r'//\s*\[([A-Za-z0-9_.\-]+)\]\s*$', l)
        if m:
            labels[k + 1] = m.group(1)
    return {'text': text, 'labels': labels, 'units': units, 'log': log, 'diffs': diffs,
            'sources': sorted(sources), 'body_lines': body_lines}


if __name__ == '__main__':
    try:
        r = expand(sys.argv[1])
    except (ExtractError, rustlex.LexError) as e:
        print('EXTRACT-ERROR: %s' % e, file=sys.stderr)
        sys.exit(2)
    if len(sys.argv) > 2:
        with open(sys.argv[2], 'w') as f:
            f.write(r['text'])
        with open(sys.argv[2] + '.map.json', 'w') as f:
            json.dump({k: r[k] for k in ('labels', 'units', 'log', 'diffs', 'sources')}, f, indent=1)
    else:
        sys.stdout.write(r['text'])
