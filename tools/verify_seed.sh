#!/bin/bash
# usage: tools/verify_seed.sh <worktree> <seed dir with patch.diff + demo.sh>
# Confirms a seeded change: compiles, full test suite passes with it, demo fails with it and
# passes without it. Prints a JSON-ish summary line.
WT=$1; SD=$2
cd "$WT" || exit 2
mkdir -p .hg   # root detection needs a .git/.hg *directory*; a worktree's .git is a file
git checkout -q -- src tests 2>/dev/null
git apply "$SD/patch.diff" || { echo "RESULT apply=fail"; exit 1; }
cargo build --offline 2>&1 | tail -1
T=$(timeout 900 cargo test --offline 2>&1 | grep -E "^test result" | awk '{p+=$4; f+=$6} END {print p"/"f}')
bash "$SD/demo.sh" "$WT/target/debug/blockwatch" > /tmp/seed_demo_with.log 2>&1; W=$?
git checkout -q -- src tests
cargo build --offline 2>&1 | tail -1
bash "$SD/demo.sh" "$WT/target/debug/blockwatch" > /tmp/seed_demo_without.log 2>&1; WO=$?
echo "RESULT tests_pass_fail=$T demo_with_patch=$W demo_without_patch=$WO"
