#!/usr/bin/env python3
"""setup_cmd: nothing to build (python + pre-installed verus); verify the tools are present."""
import shutil, subprocess, sys
ok = True
for t in ('verus', 'cargo', 'python3'):
    if not shutil.which(t):
        print('missing tool: ' + t); ok = False
if ok:
    r = subprocess.run(['verus', '--version'], capture_output=True, text=True)
    print(r.stdout.strip().splitlines()[0] if r.stdout else r.stderr.strip())
sys.exit(0 if ok else 1)
