#!/usr/bin/env python3
"""usage: keep_seed.py <seed id e.g. C06-1> <source dir> <verification result line>
Copies patch.diff, demo.* and meta.json of a confirmed seeded change into /verif/seeded/<id>/."""
import json, os, shutil, sys
sid, src, res = sys.argv[1], sys.argv[2], sys.argv[3]
dst = os.path.join('/verif/seeded', sid)
os.makedirs(dst, exist_ok=True)
for f in os.listdir(src):
    if f == 'patch.diff' or f.startswith('demo'):
        shutil.copy(os.path.join(src, f), os.path.join(dst, f))
meta = {}
mp = os.path.join(src, 'meta.json')
if os.path.exists(mp):
    try:
        meta = json.load(open(mp))
    except Exception:
        meta = {'raw': open(mp).read()}
meta['id'] = sid
meta['confirmed_by'] = 'tools/verify_seed.sh in a scratch worktree: git apply; cargo build --offline; cargo test --offline (whole suite); demo with patched binary; git checkout; rebuild; demo with unpatched binary'
meta['confirmation'] = res
json.dump(meta, open(os.path.join(dst, 'meta.json'), 'w'), indent=1)
print('kept', dst)
