#!/bin/bash
# Runs, for every seeded change under /verif/seeded, the quick check of the property it breaks
# against a scratch copy of /repo/src with the patch applied. Prints one line per seed.
# usage: tools/run_seeds.sh [seed-id-prefix]
cd /verif
for d in seeded/${1:-}*/; do
  id=$(basename $d); prop=${id%%-*}
  [ -f $d/patch.diff ] || continue
  D=$(mktemp -d /tmp/verifseed.XXXXXX); cp -r /repo/src /repo/tests $D/ 2>/dev/null
  if ! (cd $D && git apply --unsafe-paths /verif/$d/patch.diff 2>/dev/null); then echo "$id: patch does not apply"; rm -rf $D; continue; fi
  out=$(VERIF_REPO=$D python3 tools/runner.py $prop quick 2>&1); code=$?
  echo "$id: exit=$code $(echo "$out" | grep -E '^VIOLATION|^UNDECIDED' | sed -E 's/replay=[^ ]+ //' | tr '\n' ';' | cut -c1-300)"
  rm -rf $D
done
