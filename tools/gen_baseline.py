#!/usr/bin/env python3
"""Writes contracts/baseline.json: per group the unit ids and labels that exist and verify on the
tree this is run on (run it on the unchanged tree only; committed). Used to know which units a
group contains when extraction fails on a changed tree (bounded stand-in selection)."""
import glob, json, os, sys
sys.path.insert(0, os.path.dirname(os.path.abspath(__file__)))
os.environ['VERIF_NO_NORMALISE'] = '1'
import runner
import extract
V = runner.VERIF
out = {}
for p in sorted(glob.glob(os.path.join(V, 'contracts', 'groups', '*.rs'))):
    g = os.path.basename(p)[:-3]
    r = runner.run_group(g, 'quick')
    out[g] = {'status': r['status'], 'units': sorted(r.get('units', {})), 'labels': r.get('labels', []),
              'failed': sorted(set(f['obligation'] for f in r.get('failed', [])))}
    print(g, r['status'], len(out[g]['units']), 'units', len(out[g]['labels']), 'labels', out[g]['failed'])
json.dump(out, open(os.path.join(V, 'contracts', 'baseline.json'), 'w'), indent=1)
binders = {}
for (g, u), names in sorted(extract.BINDERS_SEEN.items(), key=lambda kv: (str(kv[0][0]), kv[0][1])):
    if g and names:
        binders.setdefault(g, {})[u] = names
json.dump(binders, open(os.path.join(V, 'contracts', 'binders.json'), 'w'), indent=1)
print('binders of', sum(len(v) for v in binders.values()), 'units written')
json.dump(runner.trusted_fn_hashes(), open(os.path.join(V, 'contracts', 'trusted_repo_hashes.json'), 'w'), indent=1)
print('hashes of trusted in-repo functions written')
