#!/usr/bin/env python3
"""Writes contracts/baseline.json: per group the unit ids and labels that exist and verify on the
tree this is run on (run it on the unchanged tree only; committed). Used to know which units a
group contains when extraction fails on a changed tree (bounded stand-in selection)."""
import glob, json, os, sys
sys.path.insert(0, os.path.dirname(os.path.abspath(__file__)))
import runner
V = runner.VERIF
out = {}
for p in sorted(glob.glob(os.path.join(V, 'contracts', 'groups', '*.rs'))):
    g = os.path.basename(p)[:-3]
    r = runner.run_group(g, 'quick')
    out[g] = {'status': r['status'], 'units': sorted(r.get('units', {})), 'labels': r.get('labels', []),
              'failed': sorted(set(f['obligation'] for f in r.get('failed', [])))}
    print(g, r['status'], len(out[g]['units']), 'units', len(out[g]['labels']), 'labels', out[g]['failed'])
json.dump(out, open(os.path.join(V, 'contracts', 'baseline.json'), 'w'), indent=1)
