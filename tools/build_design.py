#!/usr/bin/env python3
"""Assembles /verif/DESIGN.md: hand-written parts (tools/design_*.md, the original sections 1, 2, 9
and Appendix A kept in tools/design_orig.json) + tables generated from the machinery's configuration."""
import json, os, subprocess
V = os.path.dirname(os.path.dirname(os.path.abspath(__file__)))
T = os.path.join(V, 'tools')
orig = json.load(open(os.path.join(T, 'design_orig.json')))
tables = subprocess.run(['python3', os.path.join(T, 'gen_design_tables.py')], capture_output=True, text=True).stdout
tp, tg = tables.split('\n\n', 1)
head = open(os.path.join(T, 'design_head.md')).read().replace('@@TABLE_PROPS@@', tp.strip())
body = open(os.path.join(T, 'design_body.md')).read().replace('@@TABLE_GROUPS@@', tg.strip())
tail = open(os.path.join(T, 'design_tail.md')).read()
sep = '---------------------------------------------------------------------------------------------\n\n'
doc = head + orig['s1'] + orig['s2'] + body + '\n' + orig['s9'] + sep + tail + orig['appA'].rstrip() + '\n'
open(os.path.join(V, 'DESIGN.md'), 'w').write(doc)
print('DESIGN.md written:', len(doc.split('\n')), 'lines')
