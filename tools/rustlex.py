"""Minimal Rust lexer used by the extractor.

It does two things, both purely syntactic and independent of what the code means:

* ``mask(text)``: a same-length copy of ``text`` in which the inside of comments, string
  literals (plain, byte, raw), and char literals is replaced by spaces (newlines kept), so
  that brace matching and token search on the mask never look inside them.
* ``tokens(text)``: the token stream (identifier, number, literal, lifetime, single punctuation
  character) with byte offsets, comments and whitespace skipped. Token-level matching makes the
  anchors of the contract files insensitive to reformatting and to comments.
"""
import re

IDENT_START = re.compile(r'[A-Za-z_]')
IDENT = re.compile(r'[A-Za-z_][A-Za-z0-9_]*')
NUMBER = re.compile(r'[0-9][A-Za-z0-9_]*(\.[0-9][A-Za-z0-9_]*)?')


class LexError(Exception):
    pass


def _scan(text):
    """Yield (kind, start, end) for every lexical element incl. comments and whitespace.
    kind in: ws, comment, str, char, lifetime, ident, num, punct."""
    i, n = 0, len(text)
    while i < n:
        c = text[i]
        if c.isspace():
            j = i + 1
            while j < n and text[j].isspace():
                j += 1
            yield ('ws', i, j)
            i = j
            continue
        if text.startswith('//', i):
            j = text.find('\n', i)
            j = n if j < 0 else j
            yield ('comment', i, j)
            i = j
            continue
        if text.startswith('/*', i):
            depth, j = 1, i + 2
            while j < n and depth:
                if text.startswith('/*', j):
                    depth += 1
                    j += 2
                elif text.startswith('*/', j):
                    depth -= 1
                    j += 2
                else:
                    j += 1
            if depth:
                raise LexError('unterminated block comment at %d' % i)
            yield ('comment', i, j)
            i = j
            continue
        # raw strings r"..", r#".."#, br#".."#
        m = re.compile(r'(b|c)?r(#*)"').match(text, i)
        if m:
            hashes = m.group(2)
            close = '"' + hashes
            j = text.find(close, m.end())
            if j < 0:
                raise LexError('unterminated raw string at %d' % i)
            j += len(close)
            yield ('str', i, j)
            i = j
            continue
        if c == '"' or (c in 'bc' and i + 1 < n and text[i + 1] == '"'):
            j = i + (1 if c == '"' else 2)
            while j < n and text[j] != '"':
                j += 2 if text[j] == '\\' else 1
            if j >= n:
                raise LexError('unterminated string at %d' % i)
            j += 1
            yield ('str', i, j)
            i = j
            continue
        if c == "'" or (c == 'b' and i + 1 < n and text[i + 1] == "'"):
            k = i + (1 if c == "'" else 2)
            # char literal or lifetime
            if k < n and text[k] == '\\':
                j = text.find("'", k + 2)
                if j < 0:
                    raise LexError('unterminated char at %d' % i)
                yield ('char', i, j + 1)
                i = j + 1
                continue
            if k + 1 < n and text[k + 1] == "'" and text[k] != "'":
                yield ('char', i, k + 2)
                i = k + 2
                continue
            # multi-byte char literal like 'é' is one python char, handled above; lifetime:
            m2 = IDENT.match(text, k)
            if c == "'" and m2:
                yield ('lifetime', i, m2.end())
                i = m2.end()
                continue
            raise LexError('cannot lex quote at %d' % i)
        m = IDENT.match(text, i)
        if m:
            yield ('ident', i, m.end())
            i = m.end()
            continue
        m = NUMBER.match(text, i)
        if m:
            yield ('num', i, m.end())
            i = m.end()
            continue
        yield ('punct', i, i + 1)
        i += 1


def mask(text):
    out = list(text)
    for kind, s, e in _scan(text):
        if kind in ('comment', 'str', 'char'):
            for k in range(s, e):
                if out[k] != '\n':
                    out[k] = ' '
    return ''.join(out)


def tokens(text):
    """[(tok_text, start, end)] skipping whitespace and comments."""
    return [(text[s:e], s, e) for kind, s, e in _scan(text) if kind not in ('ws', 'comment')]


def match_close(masked, open_idx):
    """Index of the bracket closing masked[open_idx] (one of ( [ { )."""
    pairs = {'(': ')', '[': ']', '{': '}'}
    o = masked[open_idx]
    c = pairs[o]
    depth = 0
    for i in range(open_idx, len(masked)):
        ch = masked[i]
        if ch == o:
            depth += 1
        elif ch == c:
            depth -= 1
            if depth == 0:
                return i
    raise LexError('unbalanced %s at %d' % (o, open_idx))


def _pattern_tokens(pattern):
    """Token list of a pattern; `$name` (a `$` followed by an identifier) is a wildcard that matches
    one identifier token, `$$name` one string-literal token."""
    raw = [t[0] for t in tokens(pattern)]
    out, i = [], 0
    while i < len(raw):
        if raw[i] == '$' and i + 2 < len(raw) + 1 and i + 1 < len(raw) and raw[i + 1] == '$' and i + 2 < len(raw):
            out.append(('STR', raw[i + 2]))
            i += 3
        elif raw[i] == '$' and i + 1 < len(raw) and IDENT.fullmatch(raw[i + 1]):
            out.append(('ID', raw[i + 1]))
            i += 2
        else:
            out.append(('LIT', raw[i]))
            i += 1
    return out


def find_tokens_b(text, pattern, start=0, end=None):
    """Like find_tokens but returns [(start, end, bindings)] and supports wildcards."""
    end = len(text) if end is None else end
    toks = [t for t in tokens(text[start:end])]
    pt = _pattern_tokens(pattern)
    if not pt:
        raise LexError('empty pattern')
    res = []
    n, m = len(toks), len(pt)
    for i in range(0, n - m + 1):
        b = {}
        ok = True
        for k in range(m):
            kind, val = pt[k]
            t = toks[i + k][0]
            if kind == 'LIT':
                if t != val:
                    ok = False
                    break
            elif kind == 'ID':
                if not IDENT.fullmatch(t) or (val in b and b[val] != t):
                    ok = False
                    break
                b[val] = t
            else:
                if not (t.startswith('"') or t.startswith('r"') or t.startswith('r#')):
                    ok = False
                    break
                b[val] = t
        if ok:
            res.append((start + toks[i][1], start + toks[i + m - 1][2], b))
    # drop overlapping matches (keep the leftmost)
    out, last = [], -1
    for st, en, b in res:
        if st >= last:
            out.append((st, en, b))
            last = en
    return out


def find_tokens(text, pattern, start=0, end=None):
    """All (start, end) byte spans in text[start:end] whose token sequence matches `pattern`."""
    return [(st, en) for st, en, _b in find_tokens_b(text, pattern, start, end)]
