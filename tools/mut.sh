#!/bin/sh
# usage: tools/mut.sh <PROP> <file-relative-to-repo> <sed-expression>
# Runs the check of PROP against a scratch copy of /repo/src with one sed mutation applied.
set -e
D=$(mktemp -d /tmp/verifmut.XXXXXX)
mkdir -p "$D/src"
cp -r /repo/src/. "$D/src/"
sed -i -e "$3" "$D/$2"
diff -ru /repo/src "$D/src" | head -20 || true
cd /verif
set +e
VERIF_REPO="$D" python3 tools/runner.py "$1" quick
echo "exit=$?"
rm -rf "$D"
