#!/bin/bash
# usage: tools/seed_one.sh <worktree e.g. /tmp/seed/C09r> <prop e.g. C09> <new seed id e.g. C09-7> <round label>
# Confirms the single change under <worktree>/_out/1 (tools/verify_seed.sh), runs the quick check of the
# property against a scratch copy of /repo/src with the patch applied, keeps the change under seeded/<id>
# when confirmed, removes the worktree with its build output. Prints the confirmation and the check's verdict.
WT=$1; PROP=$2; SID=$3; ROUND=${4:-round}
cd /verif
SD=$WT/_out/1
[ -f $SD/patch.diff ] || { echo "$SID: no patch.diff"; exit 2; }
RES=$(bash tools/verify_seed.sh $WT $SD 2>&1 | grep '^RESULT')
echo "$SID: $RES"
case "$RES" in
  *"tests_pass_fail=237/0 demo_with_patch=1 demo_without_patch=0"*) ;;
  *) echo "$SID: NOT confirmed, not kept"; git -C /repo worktree remove --force $WT; exit 1;;
esac
python3 tools/keep_seed.py $SID $SD "$ROUND; $RES"
[ -f $SD/verify.log ] && cp $SD/verify.log seeded/$SID/agent_verify.log
git -C /repo worktree remove --force $WT; git -C /repo worktree prune
bash tools/run_seeds.sh $SID
