#!/usr/bin/env python3
"""Runner: extraction -> Verus -> obligations -> evidence, for one property.

usage: runner.py <PROPERTY_ID> [quick|thorough]
exit 0: every obligation of the property discharged on the current /repo tree
exit 1: an obligation failed with a *verification* diagnostic (prints VIOLATION line)
exit 2: undecided (lost anchor, construct outside the subset, rustc error in generated file,
        resource limit) -- never printed as a violation
"""
import concurrent.futures
import hashlib
import json
import os
import re
import shutil
import subprocess
import sys
import time

HERE = os.path.dirname(os.path.abspath(__file__))
VERIF = os.path.dirname(HERE)
sys.path.insert(0, HERE)
import extract  # noqa: E402
import rustlex  # noqa: E402

BUILD = os.path.join(VERIF, 'build')
EVID = os.path.join(VERIF, 'evidence')
# runs against an overlay (mutation / refactoring studies: VERIF_REPO=<scratch>) must not overwrite the evidence
# of the real tree
if os.path.abspath(os.environ.get('VERIF_REPO', '/repo')) != '/repo':
    EVID = os.path.join(VERIF, 'build', 'evidence-overlay')
    os.makedirs(EVID, exist_ok=True)
REPLAYS = os.path.join(VERIF, 'replays')
VERUS_TIMEOUT = int(os.environ.get('VERIF_VERUS_TIMEOUT', '600'))

# diagnostic message -> kind
KINDS = [
    ('postcondition not satisfied', 'post'),
    ('unable to prove post-condition of closure', 'post'),
    ('unable to prove precondition of closure', 'call_pre'),
    ('precondition not satisfied', 'call_pre'),
    ('invariant not satisfied at end of loop body', 'inv_preserve'),
    ('invariant not satisfied before loop', 'inv_entry'),
    ('assertion failed', 'assert'),
    ('possible arithmetic underflow/overflow', 'overflow'),
    ('possible division by zero', 'divzero'),
    ('decreases not satisfied', 'decreases'),
    ('could not prove termination', 'decreases'),
    ('index out of bounds', 'bounds'),
    ('recommendation not met', 'recommend'),
    ('unreachable', 'unreachable'),
    ('loop invariant not preserved', 'inv_preserve'),
    ('loop invariant not satisfied', 'inv_exit'),
    ('loop invariant not established', 'inv_entry'),
]
RESOURCE_PAT = re.compile(r'resource limit|rlimit|timed? ?out|z3 process|Verus Internal Error|solver', re.I)


def load_json(p):
    with open(p) as f:
        return json.load(f)


PROPS = load_json(os.path.join(VERIF, 'contracts', 'props.json'))


def classify(msg):
    for pat, kind in KINDS:
        if pat in msg:
            return kind
    return None


def run_group(group, tier, seed=0, extra_args=()):
    """Extract and verify one group. Returns a result dict."""
    t0 = time.time()
    res = {'group': group, 'status': 'ok', 'failed': [], 'undecided': None, 'functions': [],
           'labels': [], 'log': [], 'diffs': {}, 'sources': [], 'assumption_scan': [],
           'smt_ms': 0, 'wall_s': 0.0}
    tmpl = os.path.join(VERIF, 'contracts', 'groups', group + '.rs')
    try:
        ex = extract.expand(tmpl)
    except (extract.ExtractError, rustlex.LexError) as e:
        res['status'] = 'undecided'
        res['undecided'] = 'extraction: %s' % e
        res['wall_s'] = time.time() - t0
        return res
    os.makedirs(BUILD, exist_ok=True)
    gen = os.path.join(BUILD, group + '.rs')
    with open(gen, 'w') as f:
        f.write(ex['text'])
    res['generated'] = gen
    res['labels'] = sorted(set(ex['labels'].values()))
    res['log'] = ex['log']
    res['diffs'] = ex['diffs']
    res['sources'] = ex['sources']
    res['units'] = ex['units']
    res['assumption_scan'] = scan_assumptions(ex['text'])
    cmd = ['verus', gen, '--output-json', '--time-expanded', '--error-format=json',
           '--triggers-mode', 'silent', '--multiple-errors', '20' if tier == 'quick' else '50',
           '--num-threads', '4']
    if seed:
        cmd += ['--smt-option', 'smt.random_seed=%d' % seed]
    cmd += list(extra_args)
    res['cmd'] = ' '.join(cmd)
    injected = []
    for _attempt in range(4):
        try:
            p = subprocess.run(cmd, capture_output=True, text=True, timeout=VERUS_TIMEOUT, cwd=BUILD)
        except subprocess.TimeoutExpired:
            res['status'] = 'undecided'
            res['undecided'] = 'verus timed out after %ds' % VERUS_TIMEOUT
            res['wall_s'] = time.time() - t0
            return res
        # std functions the unchanged tree does not call: inject their assumed spec on demand
        missing = set(re.findall(r'`([A-Za-z0-9_:&%]+)` is not supported', p.stderr))
        lib = ondemand_library()
        add = [k for k in sorted(missing) if k in lib and k not in injected]
        # constants of the unit's own source file that changed code refers to (rule E11: pasted verbatim)
        for name in sorted(set(re.findall(r'cannot find value `([A-Z][A-Z0-9_]*)` in this scope', p.stderr))):
            key = 'const:' + name
            if key in injected or key in add:
                continue
            for src_rel in ex['sources']:
                if src_rel.startswith('registry:'):
                    continue
                try:
                    src = extract.read_repo(src_rel)
                    a0, b0 = extract.find_item(src, 'const', name)
                    lib[key] = extract.pubify_item(extract.strip_vis_and_attrs(src[a0:b0]))
                    add.append(key)
                    break
                except Exception:
                    continue
        if not add:
            break
        text = ex['text']
        idx = text.rfind('} // verus!')
        if idx < 0:
            break
        block = ''.join('\n// on-demand: `%s`\n%s\n' % (k, lib[k]) for k in injected + add)
        with open(gen, 'w') as f:
            f.write(text[:idx] + block + text[idx:])
        injected += add
    if injected:
        res['log'] = res['log'] + [{'unit': 'std', 'rule': 'T-std on demand', 'what': 'assumed spec injected for %s' % k} for k in injected]
        with open(gen) as f:
            ex = dict(ex)
            ex['text'] = f.read()
        res['assumption_scan'] = scan_assumptions(ex['text'])
    out = None
    try:
        out = json.loads(p.stdout)
    except Exception:
        pass
    diags = []
    raw_err = []
    for l in p.stderr.splitlines():
        l = l.strip()
        if l.startswith('{'):
            try:
                diags.append(json.loads(l))
                continue
            except Exception:
                pass
        if l:
            raw_err.append(l)
    # function breakdown
    if out:
        try:
            smt = out['times-ms']['smt']
            res['smt_ms'] = smt.get('total', 0)
            for mod in smt.get('smt-run-module-times', []):
                for fb in mod.get('function-breakdown', []):
                    res['functions'].append({'function': fb['function'].split('::', 1)[-1], 'mode': fb.get('mode:', ''),
                                             'time_us': fb.get('time-micros', 0), 'rlimit': fb.get('rlimit', 0),
                                             'success': fb.get('success', False)})
        except Exception:
            pass
        res['verus'] = out.get('verus', {}).get('version')
        vr = out.get('verification-results', {})
        res['verified'] = vr.get('verified')
        res['errors'] = vr.get('errors')
    line_to_label = {int(k): v for k, v in ex['labels'].items()}
    lines = ex['text'].split('\n')

    def unit_of(line):
        for uid, (a, b, _f) in ex['units'].items():
            if a <= line <= b:
                return uid
        # enclosing fn in template text (search backwards)
        for k in range(min(line, len(lines)) - 1, -1, -1):
            m = re.match(r'\s*(pub\s+)?(proof\s+|exec\s+)?fn\s+([A-Za-z0-9_]+)', lines[k])
            if m:
                return 'tmpl:' + m.group(3)
        return 'tmpl:?'

    def label_in(a, b):
        for ln in range(a, b + 1):
            if ln in line_to_label:
                return line_to_label[ln]
        return None

    hard_errors = []
    for d in diags:
        if d.get('level') != 'error':
            continue
        msg = d.get('message', '')
        if msg.startswith('aborting due to'):
            continue
        kind = classify(msg)
        spans = d.get('spans', [])
        if kind is None:
            if RESOURCE_PAT.search(msg):
                hard_errors.append('resource: ' + msg)
            else:
                hard_errors.append('rustc/verus: %s @%s' % (msg, [(s['line_start']) for s in spans][:2]))
            continue
        prim = [s for s in spans if s.get('is_primary')]
        sec = [s for s in spans if not s.get('is_primary')]
        pl = prim[0]['line_start'] if prim else 0
        unit = unit_of(pl)
        label = None
        # the span that names the failed clause carries a "failed ..." label; otherwise the primary one
        clause_spans = [s for s in spans if 'failed' in (s.get('label') or '')] or prim or sec
        for s in clause_spans:
            label = label_in(s['line_start'], s['line_end'])
            if label:
                break
        sec = clause_spans
        if label and kind == 'call_pre':
            name = '%s.call.%s' % (unit, label)
        elif label:
            name = label
        else:
            name = '%s.safety.%s' % (unit, kind)
        snippet = ''
        if prim:
            a, b = prim[0]['line_start'], min(prim[0]['line_end'], prim[0]['line_start'] + 6)
            snippet = '\n'.join(lines[a - 1:b])
        res['failed'].append({'obligation': name, 'unit': unit, 'kind': kind, 'message': msg,
                              'gen_line': pl, 'snippet': snippet,
                              'clause': '\n'.join(lines[sec[0]['line_start'] - 1:sec[0]['line_end']]) if sec else '',
                              'rendered': d.get('rendered', '')})
    # a resource-limit report that accompanies classified failures of the same run comes from the
    # search for *further* errors after the first one (--multiple-errors): the classified failures stand
    if res['failed']:
        hard_errors = [h for h in hard_errors if not h.startswith('resource')]
    if hard_errors:
        res['status'] = 'undecided'
        res['undecided'] = '; '.join(hard_errors[:5])
    elif out is None:
        res['status'] = 'undecided'
        res['undecided'] = 'verus produced no JSON (exit %s): %s' % (p.returncode, ' | '.join(raw_err[:5]))
    elif res['failed']:
        res['status'] = 'fail'
    elif p.returncode != 0 or not out.get('verification-results', {}).get('success', False):
        res['status'] = 'undecided'
        res['undecided'] = 'verus exit %s without a classifiable diagnostic: %s' % (p.returncode, ' | '.join(raw_err[:5]))
    if res['status'] == 'ok' and os.environ.get('VERIF_NO_CANARY') != '1' and not seed:
        ok, det = run_canaries(group, ex, gen)
        res['canaries'] = det
        if not ok:
            res['status'] = 'undecided'
            res['undecided'] = 'vacuity guard: these canaries verified although they must fail: %s' % det.get('vacuous')
    res['wall_s'] = time.time() - t0
    return res


_ONDEMAND = None


def ondemand_library():
    """{verus function path: assume_specification text} from contracts/prelude/std_ondemand.rs"""
    global _ONDEMAND
    if _ONDEMAND is None:
        _ONDEMAND = {}
        p = os.path.join(VERIF, 'contracts', 'prelude', 'std_ondemand.rs')
        if os.path.exists(p):
            key, buf = None, []
            for l in open(p).read().split('\n'):
                m = re.match(r'^//@ondemand\s+(\S+)', l)
                if m:
                    if key:
                        _ONDEMAND[key] = '\n'.join(buf)
                    key, buf = m.group(1), []
                elif key is not None:
                    buf.append(l)
            if key:
                _ONDEMAND[key] = '\n'.join(buf)
    return _ONDEMAND


def run_canaries(group, ex, gen_path):
    """Vacuity guard. A copy of the generated file in which (a) every verified unit starts with
    `assert(false)` and (b) a `proof fn` claims `ensures false`. Each of these MUST fail: if one
    verifies, a precondition or the assumed base is contradictory and every 'proof' is vacuous.
    Returns (ok, details)."""
    lines = ex['text'].split('\n')
    inserts = {}
    for uid, bl in ex.get('body_lines', {}).items():
        a, b, _src = ex['units'][uid]
        # external_body units are not checked by Verus: skip (they are in the trusted base)
        if any('external_body' in lines[k] for k in range(max(0, a - 3), a)):
            continue
        inserts[bl] = uid
    out = []
    for k, l in enumerate(lines, start=1):
        out.append(l)
        if k in inserts:
            out.append('assert(false); // [canary.%s]' % inserts[k])
    text = '\n'.join(out)
    # global consistency canary, placed just before the end of the verus! block
    idx = text.rfind('} // verus!')
    if idx < 0:
        return True, {'skipped': 'no `} // verus!` marker'}
    text = text[:idx] + 'proof fn verif_canary_consistency()\n    ensures false, // [canary.consistency]\n{\n}\n' + text[idx:]
    cpath = gen_path[:-3] + '_canary.rs'
    with open(cpath, 'w') as f:
        f.write(text)
    cmd = ['verus', cpath, '--output-json', '--error-format=json', '--triggers-mode', 'silent',
           '--multiple-errors', '100', '--num-threads', '4']
    try:
        p = subprocess.run(cmd, capture_output=True, text=True, timeout=VERUS_TIMEOUT, cwd=BUILD)
    except subprocess.TimeoutExpired:
        return True, {'skipped': 'canary run timed out'}
    clines = text.split('\n')
    label_at = {}
    for k, l in enumerate(clines, start=1):
        m = re.search(r'//\s*\[(canary\.[A-Za-z0-9_.\-]+)\]', l)
        if m:
            label_at[k] = m.group(1)
    failed = set()
    for l in p.stderr.splitlines():
        l = l.strip()
        if not l.startswith('{'):
            continue
        try:
            d = json.loads(l)
        except Exception:
            continue
        if d.get('level') != 'error':
            continue
        for sp in d.get('spans', []):
            for ln in range(sp['line_start'], sp['line_end'] + 1):
                if ln in label_at:
                    failed.add(label_at[ln])
    expected = set(label_at.values())
    try:
        ran = json.loads(p.stdout).get('verification-results', {}).get('verified') is not None
    except Exception:
        ran = False
    if not ran:
        return True, {'skipped': 'canary file did not reach verification (rustc error)'}
    verified = sorted(expected - failed)   # canaries that did NOT fail: vacuity
    return (len(verified) == 0), {'canaries': len(expected), 'failed_as_required': len(failed & expected), 'vacuous': verified}


def scan_assumptions(text):
    """Mechanical scan of the generated file for everything that is assumed rather than proved."""
    found = []
    masked = rustlex.mask(text)
    lines = text.split('\n')
    mlines = masked.split('\n')
    for k, ml in enumerate(mlines):
        for pat, what in ((r'\bassume\s*\(', 'assume'), (r'\badmit\s*\(', 'admit'),
                          (r'external_body', 'external_body'), (r'\bassume_specification\b', 'assume_specification'),
                          (r'external_type_specification', 'external_type_specification'),
                          (r'\bunsafe\b', 'unsafe'), (r'\buninterp\s+spec\b', 'uninterp spec fn'),
                          (r'\baxiom\s+fn\b', 'axiom'), (r'verifier::external\b', 'external')):
            if re.search(pat, ml):
                # describe with the next fn/struct name found on this or following lines
                desc = ''
                for j in range(k, min(k + 6, len(lines))):
                    m = re.search(r'assume_specification.*?\[\s*(.+?)\s*\]\s*\(', mlines[j])
                    if m:
                        desc = m.group(1).strip()
                        break
                    m = re.search(r'(fn|struct|enum)\s+([A-Za-z0-9_]+)', mlines[j])
                    if m:
                        desc = m.group(2).strip()
                        break
                found.append('%s: %s' % (what, desc or lines[k].strip()[:80]))
    # de-duplicate keeping order
    seen, out = set(), []
    for x in found:
        if x not in seen:
            seen.add(x)
            out.append(x)
    return out


def obligations_of(results, units_filter, kinds_filter=None):
    """Count obligations for a property from a list of group results.

    An obligation is (a) a labelled clause `// [LABEL]` whose label starts with one of the
    property's unit ids, or (b) one `safety` obligation per verified function of those units
    (Verus' implicit checks: overflow, bounds, callee preconditions, termination, unwrap).
    """
    obl = []
    for r in results:
        for lab in r.get('labels', []):
            if any(lab == u or lab.startswith(u + '.') for u in units_filter):
                if kinds_filter is None:
                    obl.append(lab)
        for uid in r.get('units', {}):
            if uid in units_filter:
                obl.append(uid + '.safety')
    return sorted(set(obl))


def trusted_fn_hashes():
    """Token-stream hashes of the /repo functions listed in contracts/trusted_repo_fns.json (current text)."""
    import hashlib
    import extract
    import rustlex
    out = {}
    try:
        cfg = load_json(os.path.join(VERIF, 'contracts', 'trusted_repo_fns.json'))
    except Exception:
        return out
    for e in cfg.get('entries', []):
        try:
            src = extract.read_repo(e['file'])
        except Exception:
            src = None
        for fn in e['fns']:
            hdr, name = (fn if isinstance(fn, list) else (None, fn))
            key = e['file'] + '::' + ((hdr + '::') if hdr else '') + name
            try:
                st, _ob, cb = extract.find_fn(src, name, hdr)
                toks = ' '.join(t[0] for t in rustlex.tokens(src[st:cb + 1]))
                out[key] = hashlib.sha256(toks.encode()).hexdigest()[:16]
            except Exception:
                out[key] = 'missing'
    return out


def changed_trusted_units(units):
    """Units (of this property) whose contract rests on an in-repo function that is left uninterpreted and
    whose text differs from the unchanged tree: [(unit, 'file::fn')]."""
    try:
        cfg = load_json(os.path.join(VERIF, 'contracts', 'trusted_repo_fns.json'))
        base = load_json(os.path.join(VERIF, 'contracts', 'trusted_repo_hashes.json'))
    except Exception:
        return []
    cur = trusted_fn_hashes()
    out = []
    for e in cfg.get('entries', []):
        for fn in e['fns']:
            hdr, name = (fn if isinstance(fn, list) else (None, fn))
            key = e['file'] + '::' + ((hdr + '::') if hdr else '') + name
            if key in base and cur.get(key) != base[key]:
                for u in e['units']:
                    if u in units:
                        out.append((u, key))
    return out


def check(prop, tier):
    t0 = time.time()
    seed = int(os.environ.get('VERIF_SEED', '0') or 0)
    cfg = PROPS[prop]
    groups = cfg['groups']
    units = cfg['units']          # unit ids whose obligations belong to this property ("*" = all)
    safety_only = cfg.get('safety_only', False)
    trusted_conf = {}
    with concurrent.futures.ThreadPoolExecutor(max_workers=10) as ex:
        results = list(ex.map(lambda g: run_group(g, tier), groups))
    if tier == 'thorough':
        # second solver configuration: a different random seed must agree (unstable proof => undecided)
        with concurrent.futures.ThreadPoolExecutor(max_workers=10) as ex:
            results2 = list(ex.map(lambda g: run_group(g, tier, seed=(seed or 0) + 17), groups))
        for r, r2 in zip(results, results2):
            if r['status'] != r2['status']:
                r['status'] = 'undecided'
                r['undecided'] = 'solver configurations disagree (seed 0: %s, seed %d: %s)' % (r['status'], seed + 17, r2['status'])
    if units == '*':
        units = sorted(set(u for r in results for u in r.get('units', {})))
    known = load_json(os.path.join(VERIF, 'known_findings.json'))
    known_obl = {k['obligation']: k for k in known.get('findings', []) if k['property'] == prop}

    undecided = [r for r in results if r['status'] == 'undecided']
    failed = []
    for r in results:
        for f in r['failed']:
            u = f['unit']
            mine = u in units or any(f['obligation'].startswith(x + '.') for x in units)
            if not mine:
                continue
            if safety_only and f['kind'] not in ('overflow', 'bounds', 'decreases', 'divzero', 'call_pre', 'unreachable'):
                continue
            failed.append((r, f))
    all_obl = obligations_of(results, units)
    failed_names = sorted(set(f['obligation'] for _r, f in failed))
    # a failed obligation without label collapses into <unit>.safety
    failed_core = set()
    for n in failed_names:
        m = re.match(r'^([^.]+)\.safety\.', n)
        failed_core.add(m.group(1) + '.safety' if m else (n.split('.call.')[0] + '.safety' if '.call.' in n else n))
    # obligations listed as known findings are expected to fail: they are reported separately
    # (KNOWN-FINDING lines, coverage.known_findings) and not counted as obligations of the claim
    all_obl = [o for o in all_obl if o not in known_obl]
    discharged = [o for o in all_obl if o not in failed_core]

    os.makedirs(EVID, exist_ok=True)
    violations = []
    known_hit = []
    for r, f in failed:
        if f['obligation'] in known_obl:
            known_hit.append((known_obl[f['obligation']], f))
        else:
            violations.append((r, f))

    exit_code = 0
    lines_out = []
    for k, f in known_hit:
        lines_out.append('KNOWN-FINDING: property=%s %s (obligation %s)' % (prop, k['what'], f['obligation']))
    replay_paths = []
    bounded_runs = {}
    use_cex = os.environ.get('VERIF_NO_CEX') != '1'
    if violations and not undecided:
        os.makedirs(REPLAYS, exist_ok=True)
        if use_cex:
            try:
                import cexsearch
                bounded_runs = cexsearch.run_units(sorted(set(f['unit'] for _r, f in violations)))
            except Exception as e:  # best effort: a crash here must not mask the violation
                bounded_runs = {'_error': {'status': 'error', 'detail': repr(e)}}
        seen = set()
        for r, f in violations:
            if f['obligation'] in seen:
                continue
            seen.add(f['obligation'])
            rp = write_replay(prop, r, f, bounded_runs)
            replay_paths.append(rp)
            lines_out.append('VIOLATION property=%s replay=%s obligation=%s%s' % (
                prop, rp[0], f['obligation'], '' if rp[1] else ' no-failing-input-found'))
        exit_code = 1
    elif undecided:
        exit_code = 2
        # Bounded stand-in: the proof could not be applied (restructured code: lost anchor, ghost code
        # that no longer compiles, construct outside the subset). Run the small-scope harnesses of the
        # property's units in the undecided groups against the real code. A concrete failing input
        # is a violation (labelled bounded); no failing input leaves the property undecided (exit 2).
        structural = [r for r in undecided if not (r['undecided'] or '').startswith('resource')
                      and 'timed out' not in (r['undecided'] or '')]
        base = load_json(os.path.join(VERIF, 'contracts', 'baseline.json')) if os.path.exists(os.path.join(VERIF, 'contracts', 'baseline.json')) else {}
        cand = []
        for r in structural:
            for u in base.get(r['group'], {}).get('units', []):
                if cfg['units'] == '*' or u in cfg['units']:
                    cand.append(u)
        if structural and cand and use_cex:
            try:
                import cexsearch
                bounded_runs = cexsearch.run_units(sorted(set(cand)))
            except Exception as e:
                bounded_runs = {'_error': {'status': 'error', 'detail': repr(e)}}
            hits = {u: b for u, b in bounded_runs.items() if b.get('status') == 'cex'}
            if hits:
                os.makedirs(REPLAYS, exist_ok=True)
                for u, b in sorted(hits.items()):
                    path = os.path.join(REPLAYS, '%s-%s.bounded.json' % (prop, re.sub(r'[^A-Za-z0-9_.-]', '_', u)))
                    with open(path, 'w') as fh:
                        json.dump({'property': prop, 'obligation': u + '.bounded',
                                   'kind': 'bounded stand-in (the deductive proof is not applicable to the changed structure)',
                                   'why_proof_not_applicable': [r['undecided'] for r in structural],
                                   'failing_input': b['detail'], 'bound': b['harness'].get('bound'),
                                   'oracle': b['harness'].get('oracle'), 'how_to_replay': b.get('cmd')}, fh, indent=1)
                    replay_paths.append((path, b['detail']))
                    lines_out.append('VIOLATION property=%s replay=%s obligation=%s.bounded (bounded stand-in; proof not applicable: %s)' % (
                        prop, path, u, (structural[0]['undecided'] or '')[:120]))
                exit_code = 1
            elif len(structural) == len(undecided) and not violations:
                # every undecided group is a structural one and the bounded stand-in of all its units
                # with a harness passed: the property held on everything explored, *bounded only*
                import cexsearch as _cx
                m = _cx.load_map()
                # every unit of the property in an undecided group needs a harness (its own or the one of
                # the unit that calls it), otherwise the stand-in does not cover what could not be proved
                AUX = {'Vnew', 'VRnew', 'Pnew', 'Bcontent'}   # constructors / accessor pasted into many groups
                covered = all(all(_cx.harness_for(u, m)[0] for u in base.get(r['group'], {}).get('units', [])
                                  if (cfg['units'] == '*' or u in cfg['units']) and u not in AUX) for r in structural)
                ran_ok = bounded_runs and all(b.get('status') == 'none' for b in bounded_runs.values())
                if covered and ran_ok:
                    exit_code = 0
                    for r in structural:
                        lines_out.append('BOUNDED-ONLY property=%s group=%s: proof not applicable (%s); bounded stand-in passed for units %s' % (
                            prop, r['group'], (r['undecided'] or '')[:160], ','.join(sorted(bounded_runs))))
        if exit_code == 2:
            for r in undecided:
                lines_out.append('UNDECIDED property=%s group=%s reason=%s' % (prop, r['group'], r['undecided']))

    if exit_code == 0 and use_cex and not safety_only:
        # an in-repo function that the contracts leave uninterpreted (e.g. the winnow tag grammar) has changed:
        # no obligation can see inside it, so the bounded harness of the units resting on it decides
        ch = changed_trusted_units(units)
        if ch:
            try:
                import cexsearch
                tb = cexsearch.run_units(sorted(set(u for u, _k in ch)), timeout=3000)
            except Exception as e:
                tb = {}
            for u, b in sorted(tb.items()):
                bounded_runs[u] = b
                fns = ', '.join(sorted(set(k for uu, k in ch if cexsearch.harness_for(uu, cexsearch.load_map())[0] == u or uu == u)))
                if b.get('status') == 'cex':
                    os.makedirs(REPLAYS, exist_ok=True)
                    path = os.path.join(REPLAYS, '%s-%s.bounded.json' % (prop, re.sub(r'[^A-Za-z0-9_.-]', '_', u)))
                    with open(path, 'w') as fh:
                        json.dump({'property': prop, 'obligation': u + '.bounded',
                                   'kind': 'bounded stand-in: the text of an in-repo function that the contracts treat as uninterpreted has changed (%s); the harness of the unit resting on it found a failing input' % fns,
                                   'failing_input': b['detail'], 'bound': b['harness'].get('bound'),
                                   'oracle': b['harness'].get('oracle'), 'how_to_replay': b.get('cmd')}, fh, indent=1)
                    replay_paths.append((path, b['detail']))
                    lines_out.append('VIOLATION property=%s replay=%s obligation=%s.bounded (bounded stand-in; uninterpreted in-repo function changed: %s)' % (prop, path, u, fns))
                    exit_code = 1
                else:
                    lines_out.append('BOUNDED-ONLY property=%s unit=%s: uninterpreted in-repo function changed (%s); bounded stand-in %s' % (prop, u, fns, b.get('status')))

    if tier == 'thorough' and exit_code == 0 and use_cex and not safety_only:
        # Thorough: additionally run the bounded harness of every unit of the property against the real
        # code. The proofs rest on assumed contracts of std and of dependencies; a harness that finds a
        # failing input although every obligation is discharged exposes a false assumption (this is
        # how the false `similar` tiling assumption / defect D5 was found). Labelled bounded.
        try:
            import cexsearch
            # ... and the conformance tests of the trusted base (T.* topics: the assumed specs of std,
            # regex, unidiff, globset, itertools compared with the real functions on small scopes)
            # a topic is run when the generated text of one of the property's groups mentions its specs
            gen = ''
            for r in results:
                try:
                    with open(r.get('generated') or '') as fh:
                        gen += fh.read()
                except OSError:
                    pass
            markers = {'T.unidiff': ['line_wf', 'spec_hunks'], 'T.unquote': ['c_unquote_spec'], 'T.merge': ['merge_seq'],
                       'T.globset': ['axiom_glob_set_build'], 'T.paths': ['axiom_ancestors_start_with_self', 'axiom_dir_or_file_exists'],
                       'T.sort': ['sort_by', 'binary_search_by'], 'T.regex': ['re_is_match', 're_group']}
            t_topics = sorted(k for k in cexsearch.load_map() if k.startswith('T.')
                              and (k not in markers or any(m in gen for m in markers[k])))
            bounded_runs = cexsearch.run_units(sorted(units) + t_topics, timeout=3000)
        except Exception as e:
            bounded_runs = {'_error': {'status': 'error', 'detail': repr(e)}}
        for u in [k for k in bounded_runs if k.startswith('T.')]:
            trusted_conf[u] = bounded_runs.pop(u)
        for u, b in sorted(trusted_conf.items()):
            if b.get('status') == 'cex':
                # an assumption of the trusted base is refuted: nothing proved on top of it is believable,
                # but it is not a violation of the property either => undecided, never an alarm
                lines_out.append('UNDECIDED property=%s reason=trusted-base assumption refuted by conformance test %s: %s' % (
                    prop, u, json.dumps(b.get('detail'))[:400]))
                exit_code = 2
        for u, b in sorted(bounded_runs.items()):
            if b.get('status') == 'cex':
                os.makedirs(REPLAYS, exist_ok=True)
                path = os.path.join(REPLAYS, '%s-%s.bounded.json' % (prop, re.sub(r'[^A-Za-z0-9_.-]', '_', u)))
                with open(path, 'w') as fh:
                    json.dump({'property': prop, 'obligation': u + '.bounded',
                               'kind': 'bounded harness found a failing input although every proof obligation is discharged: an assumed contract (trusted base) does not hold for the real code',
                               'failing_input': b['detail'], 'bound': b['harness'].get('bound'),
                               'oracle': b['harness'].get('oracle'), 'how_to_replay': b.get('cmd')}, fh, indent=1)
                replay_paths.append((path, b['detail']))
                lines_out.append('VIOLATION property=%s replay=%s obligation=%s.bounded (bounded harness; proofs discharged => a trusted assumption is false)' % (prop, path, u))
                exit_code = 1

    # evidence
    trusted = []
    rules = []
    for r in results:
        trusted.extend(r.get('assumption_scan', []))
        for l in r.get('log', []):
            rules.append('%s %s: %s' % (l['rule'], l['unit'], l['what']))
    trusted = sorted(set(trusted))
    fn_rows = []
    for r in results:
        for fb in r.get('functions', []):
            fn_rows.append({'group': r['group'], **fb})
    ev = {
        'property_id': prop,
        'tier': tier,
        'seed': seed,
        'level': 'proof',
        'coverage': {
            'obligations': len(all_obl),
            'discharged': len(discharged) if exit_code != 2 else 0,
            'checker_cmd': '; '.join(r.get('cmd', '') for r in results),
            'trusted_base': trusted + cfg.get('trusted_notes', []),
            'samples': all_obl[:40],
            'backend': 'Verus %s (Z3 bundled)' % (results[0].get('verus') if results else '?'),
            'functions_under_contract': [
                {'unit': uid, 'source': src, 'group': r['group']}
                for r in results for uid, (_a, _b, src) in r.get('units', {}).items() if uid in units],
            'function_times': fn_rows,
            'smt_ms_total': sum(r.get('smt_ms', 0) for r in results),
            'extraction_rules_fired': rules,
            'sources_read': sorted(set(s for r in results for s in r.get('sources', []))),
            'not_covered': cfg.get('not_covered', []),
            'failed_obligations': failed_names,
            'undecided': [r['undecided'] for r in undecided],
            'known_findings_hit': [k['id'] for k, _f in known_hit],
            'known_findings': [{'id': k['id'], 'obligation': k['obligation'], 'what': k['what'], 'carve_out': k.get('carve_out')} for k in known_obl.values()],
            'explanation': cfg.get('explanation', ''),
            'vacuity_canaries': {r['group']: r.get('canaries') for r in results},
            'trusted_base_conformance': [{'topic': u, 'status': b.get('status'), 'detail': b.get('detail')} for u, b in sorted(trusted_conf.items())],
            'bounded_stand_in_runs': [{'unit': u, 'status': b.get('status'), 'detail': b.get('detail')} for u, b in bounded_runs.items()],
        },
        'assumptions': trusted + ['rule ' + x for x in rules] + cfg.get('trusted_notes', []),
        'wall_s': round(time.time() - t0, 2),
        'violations': len(replay_paths),
    }
    with open(os.path.join(EVID, prop + '.json'), 'w') as f:
        json.dump(ev, f, indent=1)
    # extraction diffs, for the reader
    dd = os.path.join(EVID, 'extraction')
    os.makedirs(dd, exist_ok=True)
    for r in results:
        for uid, d in r.get('diffs', {}).items():
            with open(os.path.join(dd, uid + '.diff'), 'w') as f:
                f.write(d)
    for l in lines_out:
        print(l)
    print('%s %s: %d obligations, %d discharged, %d failed, %d undecided groups, %.1fs' % (
        prop, tier, len(all_obl), len(discharged), len(failed_names), len(undecided), time.time() - t0))
    return exit_code


def write_replay(prop, r, f, bounded_runs):
    """Write the replay file for a failed obligation, with the concrete failing input found by the
    bounded harness of the unit when there is one."""
    name = re.sub(r'[^A-Za-z0-9_.-]', '_', f['obligation'])
    path = os.path.join(REPLAYS, '%s-%s.json' % (prop, name))
    cex = None
    try:
        import cexsearch
        hu, _h = cexsearch.harness_for(f['unit'], cexsearch.load_map())
        b = bounded_runs.get(hu) if hu else None
        if b and b.get('status') == 'cex':
            cex = {'bounded_harness_unit': hu, 'found': b['detail'], 'bound': b['harness'].get('bound'),
                   'oracle': b['harness'].get('oracle'), 'how_to_replay': b.get('cmd'), 'ran_in': b.get('scratch')}
        elif b:
            f = dict(f)
            f['bounded_search'] = {'status': b.get('status'), 'detail': b.get('detail')}
    except Exception as e:
        f = dict(f)
        f['cex_search_error'] = repr(e)
    doc = {
        'property': prop,
        'obligation': f['obligation'],
        'unit': f['unit'],
        'source': r.get('units', {}).get(f['unit'], [None, None, None])[2],
        'kind': f['kind'],
        'verifier_message': f['message'],
        'failed_clause': f.get('clause'),
        'at_generated_code': f.get('snippet'),
        'verifier_output': f.get('rendered'),
        'generated_file': r.get('generated'),
        'extraction_diff': r.get('diffs', {}).get(f['unit']),
        'failing_input': cex,
        'note': None if cex else 'no-failing-input-found: the verifier gives no counterexample and the input search found none; the obligation above was discharged on the unchanged tree and fails now',
    }
    if 'cex_search_error' in f:
        doc['cex_search_error'] = f['cex_search_error']
    if 'bounded_search' in f:
        doc['bounded_search'] = f['bounded_search']
    with open(path, 'w') as fh:
        json.dump(doc, fh, indent=1)
    return path, cex


def replay(prop, path):
    """Re-run what a replay file describes against the current /repo tree: the verifier obligation
    and, when the file carries a concrete failing input, the bounded harness that produced it.
    Exit 1 if the violation reproduces, 0 if it does not, 2 if undecided."""
    doc = load_json(path)
    obl = doc.get('obligation', '')
    print('replay: property=%s obligation=%s' % (doc.get('property'), obl))
    reproduced = False
    if doc.get('failing_input') or obl.endswith('.bounded'):
        import cexsearch
        unit = (doc.get('failing_input') or {}).get('bounded_harness_unit') or doc.get('unit') or obl.rsplit('.bounded', 1)[0]
        res = cexsearch.run_units([unit])
        for u, b in res.items():
            print('bounded harness %s: %s %s' % (u, b.get('status'), json.dumps(b.get('detail'))[:600]))
            if b.get('status') == 'cex':
                reproduced = True
    if not obl.endswith('.bounded'):
        cfg = PROPS[prop]
        results = [run_group(g, 'quick') for g in cfg['groups']]
        names = set(f['obligation'] for r in results for f in r['failed'])
        und = [r['undecided'] for r in results if r['status'] == 'undecided']
        if obl in names:
            print('verifier: obligation %s FAILS on the current tree' % obl)
            reproduced = True
        elif und:
            print('verifier: undecided (%s)' % '; '.join(und)[:300])
            if not reproduced:
                return 2
        else:
            print('verifier: obligation %s is discharged on the current tree' % obl)
    print('REPRODUCED' if reproduced else 'NOT-REPRODUCED')
    return 1 if reproduced else 0


if __name__ == '__main__':
    if len(sys.argv) < 2:
        print(__doc__)
        sys.exit(2)
    prop = sys.argv[1]
    if len(sys.argv) > 3 and sys.argv[2] == '--replay':
        sys.exit(replay(prop, sys.argv[3]))
    tier = sys.argv[2] if len(sys.argv) > 2 else os.environ.get('VERIF_TIER', 'quick')
    if tier not in ('quick', 'thorough'):
        tier = 'quick'
    if prop not in PROPS:
        print('unknown property ' + prop)
        sys.exit(2)
    sys.exit(check(prop, tier))
