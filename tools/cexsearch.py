"""Bounded replay against the REAL crate.

Verus gives no counterexample. For a failed obligation of unit U this module runs the small-scope
exhaustive differential harness of U (/verif/cex/*.rs, one `#[test] fn cex_<U>` per unit, oracle
written from the property statement) inside a scratch copy of the current /repo working tree and
returns the first concrete failing input it prints, or None.

The same harnesses are the *bounded stand-in* (labelled bounded, never counted as proved) when a
proof cannot be applied because the code was restructured (lost anchor / ghost code no longer
compiles): see runner.check.
"""
import fcntl
import json
import os
import re
import shutil
import subprocess
import time

HERE = os.path.dirname(os.path.abspath(__file__))
VERIF = os.path.dirname(HERE)
CEX = os.path.join(VERIF, 'cex')
WORK = '/tmp/verif-cex-work'            # fixed path => cargo fingerprints stay valid between runs
TARGET = os.path.join(VERIF, 'build', 'cex-target')
LOCK = '/tmp/verif-cex.lock'
REPO = '/repo'


def load_map():
    p = os.path.join(CEX, 'MAP.json')
    if not os.path.exists(p):
        return {}
    with open(p) as f:
        return json.load(f)


# units without a harness of their own are exercised by the harness of the unit that calls them
ALIAS = {'VO1': 'V1', 'VO2': 'V2', 'VO3': 'V3', 'VO4': 'V4', 'V7a': 'V7m', 'V8g': 'V8', 'V8d': 'V8', 'V8v': 'V8', 'V8p': 'V8',
         'B6t': 'B6', 'B7e': 'B7', 'V1c': 'V1', 'V2c': 'V2', 'V3c': 'V3', 'V4c': 'V4', 'V6c': 'V6', 'V6d': 'V6',
         'V6n': 'V6', 'V6new': 'V6', 'P2s': 'P2', 'P2n': 'P2', 'P3n': 'P3', 'P4': 'P1', 'P4e': 'P1', 'P4n': 'P1',
         'T1': 'T3', 'T2': 'T3', 'N2': 'N1', 'N3': 'N1', 'N4': 'N1', 'N5': 'N1', 'L2': 'L1', 'PCa': 'PCi',
         'PCn': 'PCi', 'C16.table': 'B6', 'X.is_added': 'Db', 'X.is_removed': 'Db', 'X.is_context': 'Db',
         'X.lines': 'Db', 'X.hunks': 'Db', 'X.is_removed_file': 'Da', 'X.path': 'Da', 'Vnew': 'V4', 'VRnew': 'V4',
         'Pnew': 'V5', 'Bcontent': 'V4'}


def harness_for(unit, m):
    """The harness entry for a unit id; sub-units fall back to their parent (Db.fold -> Db)."""
    u = ALIAS.get(unit, unit)
    while u:
        if u in m:
            return u, m[u]
        if '.' not in u:
            break
        u = u.rsplit('.', 1)[0]
    return None, None


def prepare_scratch():
    """Scratch copy of the current working tree (+ overlay of VERIF_REPO/src for mutation runs),
    with every harness file appended to its source file."""
    if os.path.exists(WORK):
        shutil.rmtree(WORK)
    os.makedirs(WORK)
    subprocess.run(['rsync', '-a', '--exclude', 'target', '--exclude', '.git', REPO + '/', WORK + '/'], check=True)
    over = os.environ.get('VERIF_REPO')
    if over and os.path.isdir(os.path.join(over, 'src')) and os.path.abspath(over) != REPO:
        subprocess.run(['rsync', '-a', os.path.join(over, 'src') + '/', os.path.join(WORK, 'src') + '/'], check=True)
    os.makedirs(os.path.join(WORK, '.git'), exist_ok=True)  # repository-root discovery needs a directory
    for fn in sorted(os.listdir(CEX)):
        if fn.startswith('tests__') and fn.endswith('.rs'):
            # a process-level harness: a new integration-test file
            shutil.copy(os.path.join(CEX, fn), os.path.join(WORK, fn.replace('__', '/')))
            continue
        if not (fn.startswith('src__') and fn.endswith('.rs')):
            continue
        target = os.path.join(WORK, fn.replace('__', '/'))
        if not os.path.exists(target):
            continue
        with open(os.path.join(CEX, fn)) as f:
            h = f.read()
        with open(target, 'a') as f:
            f.write('\n' + h)


def run_units(units, timeout=1500):
    """Run the harnesses of the given unit ids. Returns {unit: {'status': 'cex'|'none'|'error', ...}}."""
    m = load_map()
    wanted = {}
    for u in units:
        hu, h = harness_for(u, m)
        if h:
            wanted[hu] = h
    out = {}
    if not wanted:
        return out
    t0 = time.time()
    with open(LOCK, 'w') as lk:
        fcntl.flock(lk, fcntl.LOCK_EX)
        try:
            prepare_scratch()
            env = dict(os.environ)
            env['CARGO_TARGET_DIR'] = TARGET
            env['CARGO_NET_OFFLINE'] = 'true'
            # harnesses of the library target and of the binary target (src/main.rs) need separate runs
            def kind_of(h):
                ca = (h.get('cargo_args') or '').strip()
                if ca.startswith('--test'):
                    return ('--test', ca.split()[1])
                if h.get('file', '').endswith('main.rs'):
                    return ('--bin', 'blockwatch')
                return ('--lib', None)
            by_kind = {}
            for h in wanted.values():
                by_kind.setdefault(kind_of(h), set()).add(h['test'])
            stdout, stderr, rc, cmds = '', '', 0, []
            for (kind, name), tests in sorted(by_kind.items(), key=lambda kv: str(kv[0])):
                tests = sorted(tests)
                cmd = ['cargo', 'test', '--offline', kind] + ([name] if name else []) + ['--'] + tests + ['--nocapture', '--test-threads', '8']
                cmds.append(' '.join(cmd))
                try:
                    p = subprocess.run(cmd, cwd=WORK, env=env, capture_output=True, text=True, timeout=timeout)
                    stdout += p.stdout
                    stderr += p.stderr
                    rc = rc or p.returncode
                except subprocess.TimeoutExpired as e:
                    so = e.stdout or ''
                    stdout += so.decode('utf-8', 'replace') if isinstance(so, bytes) else so
                    stderr += 'timeout'
                    rc = -1
            cmd = ['(in a scratch copy of the working tree with /verif/cex/*.rs appended)'] + cmds
            seen = set()
            for line in stdout.splitlines():
                line = line.strip()
                for tag, status in (('VERIF-CEX-NONE ', 'none'), ('VERIF-CEX ', 'cex')):
                    if line.startswith(tag):
                        try:
                            d = json.loads(line[len(tag):])
                        except Exception:
                            d = {'raw': line[len(tag):]}
                        u = d.get('unit')
                        if u and u not in seen:
                            seen.add(u)
                            out[u] = {'status': status, 'detail': d, 'harness': wanted.get(u, {}),
                                      'cmd': ' '.join(cmd), 'scratch': 'copy of /repo working tree + /verif/cex harness modules'}
                        break
            # a harness whose test thread panicked WITHOUT printing a VERIF-CEX line: the real code
            # crashed on an enumerated input (index out of bounds, overflow, unwrap on None ...)
            allout = stdout + '\n' + stderr
            for u, h in wanted.items():
                if u in out:
                    continue
                m = re.search(r"thread '[^']*%s'[^\n]*? panicked at ([^\n]*)\n([^\n]*)" % re.escape(h['test']), allout)
                if m and 'counterexample for unit' not in m.group(2):
                    out[u] = {'status': 'cex', 'detail': {'unit': u, 'what': 'the real code panicked inside the harness (crash on an enumerated input)',
                                                         'panic_at': m.group(1).strip(), 'panic_message': m.group(2).strip()},
                              'harness': h, 'cmd': ' '.join(cmd), 'scratch': 'copy of /repo working tree + /verif/cex harness modules'}
            for u in wanted:
                if u not in out:
                    tail = '\n'.join((stderr or '').splitlines()[-15:])
                    out[u] = {'status': 'error', 'detail': {'exit': rc, 'stderr_tail': tail}, 'harness': wanted[u]}
        finally:
            shutil.rmtree(WORK, ignore_errors=True)
            fcntl.flock(lk, fcntl.LOCK_UN)
    for u in out:
        out[u]['wall_s'] = round(time.time() - t0, 1)
    return out


def find(prop, failed, group_result, tier):
    """Concrete failing input for a failed obligation, or None."""
    res = run_units([failed['unit']])
    for u, r in res.items():
        if r['status'] == 'cex':
            return {'bounded_harness_unit': u, 'found': r['detail'], 'bound': r['harness'].get('bound'),
                    'oracle': r['harness'].get('oracle'), 'how_to_replay': r.get('cmd'), 'ran_in': r.get('scratch')}
    return None
