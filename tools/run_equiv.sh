#!/bin/bash
# False-alarm study: applies each behaviour-preserving refactoring under /verif/seeded_equiv to a
# scratch copy of /repo/src and runs EVERY claimed check. Expected: exit 0 (or 2 = undecided),
# never 1. Prints one line per (refactoring, property) whose exit is not 0.
cd /verif
PROPS=$(python3 -c "import json; print(' '.join(sorted(json.load(open('contracts/props.json')))))")
for d in seeded_equiv/${1:-}*/; do
  id=$(basename $d)
  D=$(mktemp -d /tmp/verifeq.XXXXXX); cp -r /repo/src $D/
  if ! (cd $D && git apply --unsafe-paths /verif/$d/patch.diff 2>/dev/null); then echo "$id: patch does not apply"; rm -rf $D; continue; fi
  res=""
  for p in $PROPS; do
    out=$(VERIF_REPO=$D VERIF_NO_CEX=${VERIF_NO_CEX:-1} python3 tools/runner.py $p quick 2>&1); code=$?
    if [ $code -ne 0 ]; then res="$res $p=$code"; echo "   $id $p exit=$code $(echo "$out" | grep -E '^VIOLATION|^UNDECIDED' | sed -E 's/replay=[^ ]+ //' | head -2 | tr '\n' ';' | cut -c1-260)"; fi
  done
  echo "$id: $(python3 -c "import json; m=json.load(open('/verif/$d/meta.json')); print(m.get('function'), '-', m.get('kind'))" 2>/dev/null) => ${res:- all 0}"
  rm -rf $D
done
