#!/usr/bin/env python3
"""Prints the as-built tables of DESIGN.md (section 12.5/12.6) from contracts/props.json,
contracts/baseline.json, cex/MAP.json and seeded/RESULTS.md."""
import json, os, re
V = os.path.dirname(os.path.dirname(os.path.abspath(__file__)))
props = json.load(open(os.path.join(V, 'contracts', 'props.json')))
base = json.load(open(os.path.join(V, 'contracts', 'baseline.json')))
cex = json.load(open(os.path.join(V, 'cex', 'MAP.json'))) if os.path.exists(os.path.join(V, 'cex', 'MAP.json')) else {}
na = json.load(open(os.path.join(V, 'contracts', 'not_applicable.json')))
print('| id | decision | groups | units under contract | not covered (stated in the evidence) |')
print('|----|----------|--------|----------------------|--------------------------------------|')
ids = sorted(set(list(props) + list(na)))
for pid in ids:
    if pid in props:
        c = props[pid]
        units = c['units'] if c['units'] != '*' else ['all units of the listed groups (safety obligations only)']
        print('| %s | claim | %s | %s | %s |' % (pid, ' '.join(c['groups']), ' '.join(units), '; '.join(c.get('not_covered', [])) or '—'))
    else:
        print('| %s | not applicable | — | — | %s |' % (pid, na[pid]))
print()
print('| group | units | labelled clauses | bounded harness units |')
print('|-------|-------|------------------|-----------------------|')
for g, b in sorted(base.items()):
    hs = [u for u in b['units'] if u in cex]
    print('| %s | %s | %d | %s |' % (g, ' '.join(b['units']), len(b['labels']), ' '.join(hs) or '—'))
