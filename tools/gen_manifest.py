#!/usr/bin/env python3
"""Writes /verif/MANIFEST.json from contracts/props.json (claimed checks) and
contracts/not_applicable.json; validates it against the schema."""
import json, os, sys
V = os.path.dirname(os.path.dirname(os.path.abspath(__file__)))
props = json.load(open(os.path.join(V, 'contracts', 'props.json')))
na = json.load(open(os.path.join(V, 'contracts', 'not_applicable.json')))
all_ids = [json.loads(l)['id'] for l in open(os.path.join(V, 'properties.jsonl')) if l.strip()]
checks = []
for pid in all_ids:
    if pid not in props:
        continue
    c = props[pid]
    checks.append({
        'property_id': pid,
        'quick_cmd': './check %s quick' % pid,
        'thorough_cmd': './check %s thorough' % pid,
        'evidence_file': 'evidence/%s.json' % pid,
        'replay_cmd_template': './check %s --replay {path}' % pid,
        'engine': 'verus-contracts',
        'level_claimed': {
            'category': 'proof',
            'text': c['level_text'],
            'design_ref': c.get('design_ref', 'DESIGN.md section 7'),
        },
        'level_note': c['level_note'],
        'technique': c.get('technique', 'contract-based deductive verification (Verus/Z3) of functions extracted from /repo on every run'),
    })
claimed = {c['property_id'] for c in checks}
nas = [{'property_id': pid, 'reason': na[pid]} for pid in all_ids if pid not in claimed]
missing = [pid for pid in all_ids if pid not in claimed and pid not in na]
if missing:
    sys.exit('no decision for ' + ','.join(missing))
m = {
    'version': 1,
    'setup_cmd': 'python3 tools/setup_check.py',
    'hooks': {
        'guard': 'mennanov_blockwatch_verif',
        'enable': 'none needed: contracts live in /verif and are spliced into text extracted from /repo on every run; the bounded harness modules of /verif/cex are appended, as #[cfg(test)] modules, to a scratch copy of the working tree (never to /repo)',
        'baseline_off_cmd': 'cd /repo && cargo test --workspace --no-fail-fast --offline',
        'source_commits': [],
        'add_only': True,
    },
    'engines': [
        {'name': 'verus-contracts', 'path': 'tools/runner.py', 'serves_properties': sorted(claimed),
         'kind_free_text': 'extractor (tools/extract.py) copies the real functions from /repo, splices contracts from contracts/groups/*.rs, Verus 0.2026.09.13 (Z3) discharges every obligation; small-scope exhaustive harnesses on the real crate (/verif/cex, cargo test in a scratch copy) supply concrete failing inputs for replay files and serve as the labelled bounded stand-in; Kani/CBMC is not used (symbolic strings are out of its practical reach here, DESIGN 2.4)'},
    ],
    'checks': checks,
    'not_applicable': nas,
    'notes': 'Exit 2 from a check means undecided (lost anchor, construct outside the verifier subset, resource limit); it is never reported as a violation. See DESIGN.md.',
}
json.dump(m, open(os.path.join(V, 'MANIFEST.json'), 'w'), indent=1)
try:
    import jsonschema
    jsonschema.validate(m, json.load(open('/root/.vp/MANIFEST.schema.json')))
    print('MANIFEST.json valid: %d checks, %d not applicable' % (len(checks), len(nas)))
except ImportError:
    print('written (jsonschema not available to validate)')
