
// ---------------------------------------------------------------------------------------------
// verif_cex: small-scope exhaustive differential harness for src/language_parsers/mod.rs
// unit: N1 (c_style_multiline_comment_processor + the `//`, `#`, `<!-- -->` blanking closures)
//                                   (see /verif/cex/README.md, /verif/cex/MAP.json)
// This text is appended verbatim to a scratch copy of src/language_parsers/mod.rs.
// ---------------------------------------------------------------------------------------------
#[cfg(test)]
#[allow(unused_imports, dead_code, clippy::all)]
mod verif_cex {
    use super::*;
    use serde_json::{Value, json};

    fn cex_fail(unit: &str, what: &str, input: Value, expected: Value, observed: Value) -> ! {
        println!(
            "VERIF-CEX {}",
            json!({"unit": unit, "what": what, "input": input, "expected": expected, "observed": observed})
        );
        panic!("counterexample for unit {unit}: {what}");
    }

    fn cex_none(unit: &str, cases: u64, bound: &str) {
        println!(
            "VERIF-CEX-NONE {}",
            json!({"unit": unit, "cases": cases, "bound": bound})
        );
    }

    /// One line of a block comment's inside: indentation, an optional decorative star run, text.
    #[derive(Clone, Copy)]
    struct Piece {
        indent: &'static str,
        stars: &'static str,
        text: &'static str,
    }

    /// C03 ("comment with its delimiters blanked out, same byte length as the source range, so tag
    /// offsets map back to source positions") for a C-style block comment built from pieces:
    /// `/*` and the closing `*/` become two spaces each; on every line whose first non-blank
    /// character is `*`, that one star becomes a space; everything else - text, further stars,
    /// indentation (spaces or TABs), line breaks - stays byte for byte.
    fn build(pieces: &[Piece], eol: &str) -> (String, String) {
        let mut source = String::from("/*");
        let mut expected = String::from("  ");
        for (i, p) in pieces.iter().enumerate() {
            if i > 0 {
                source.push_str(eol);
                expected.push_str(eol);
            }
            source.push_str(p.indent);
            expected.push_str(p.indent);
            if !p.stars.is_empty() {
                source.push_str(p.stars);
                expected.push(' ');
                expected.push_str(&p.stars[1..]);
            }
            source.push_str(p.text);
            expected.push_str(p.text);
        }
        source.push_str("*/");
        expected.push_str("  ");
        (source, expected)
    }

    fn generic_checks(unit: &str, what_kind: &str, source: &str, text: &str, input: &Value) {
        // same byte length
        if source.len() != text.len() {
            cex_fail(unit, &format!("{what_kind}: the comment text must have the same byte length as the comment in the source"), input.clone(), json!({"len": source.len()}), json!({"len": text.len(), "comment_text": text}));
        }
        // every line break at the same offset, every other byte either unchanged or a delimiter character replaced by a space
        for (i, (s, t)) in source.bytes().zip(text.bytes()).enumerate() {
            let ok = s == t || (t == b' ' && matches!(s, b'/' | b'*' | b'#' | b'<' | b'!' | b'-' | b'>'));
            if !ok || ((s == b'\n') != (t == b'\n')) {
                cex_fail(
                    unit,
                    &format!("{what_kind}: outside the blanked delimiters the comment text is the source text, byte for byte (line breaks included)"),
                    input.clone(),
                    json!({"byte_offset": i, "source_byte": (s as char).to_string()}),
                    json!({"byte_offset": i, "text_byte": (t as char).to_string(), "comment_text": text}),
                );
            }
        }
    }

    #[test]
    fn cex_N1() {
        let mut cases = 0u64;
        // ---- (a) c_style_multiline_comment_processor on comments assembled from pieces ----
        let indents = ["", " ", "\t", "  \t ", "\u{a0}"];
        let stars = ["", "*", "**"];
        let texts = ["", "x", " x * y", " <block a=\"*\">", "\u{e9}*", " </block> "];
        let mut pieces: Vec<Piece> = Vec::new();
        for indent in indents {
            for s in stars {
                for text in texts {
                    // ground truth needs "first non-blank char is a star" <=> stars non-empty:
                    // texts never start with a star, and `x`-like texts directly after an empty
                    // star run are fine.
                    pieces.push(Piece { indent, stars: s, text });
                }
            }
        }
        let mut check_block = |ps: &[Piece], eol: &str, cases: &mut u64| {
            let (source, expected) = build(ps, eol);
            // `/**/`-like degenerate overlaps of the two delimiters are not comments the grammars hand over
            let observed = c_style_multiline_comment_processor(&source);
            *cases += 1;
            let input = json!({"comment_source": source});
            if observed != expected {
                generic_checks("N1", "block comment", &source, &observed, &input);
                cex_fail(
                    "N1",
                    "c_style_multiline_comment_processor: `/*`, the closing `*/` and ONE decorative star per line (the first non-blank character, after spaces or TABs alike) become spaces; nothing else changes",
                    input,
                    json!(expected),
                    json!(observed),
                );
            }
        };
        for a in &pieces {
            check_block(&[*a], "\n", &mut cases);
            for b in &pieces {
                check_block(&[*a, *b], "\n", &mut cases);
            }
        }
        // three lines: a thinner product, LF and CRLF
        let few: Vec<Piece> = pieces.iter().enumerate().filter(|(i, _)| i % 4 == 1).map(|(_, p)| *p).collect();
        for a in &few {
            for b in &few {
                for c in &few {
                    check_block(&[*a, *b, *c], "\n", &mut cases);
                }
                check_block(&[*a, *b], "\r\n", &mut cases);
            }
        }
        // nested block comments (legal in Rust, Swift, Kotlin): only the OUTER delimiters are blanked
        for (source, expected) in [
            ("/* a /* b */ c */", "   a /* b */ c   "),
            ("/* <block> /* x */\n * </block> */", "   <block> /* x */\n   </block>   "),
            ("/*/* */*/", "  /* */  "),
        ] {
            let observed = c_style_multiline_comment_processor(source);
            cases += 1;
            if observed != expected {
                cex_fail(
                    "N1",
                    "c_style_multiline_comment_processor on a nested block comment: only the first `/*` and the LAST `*/` are delimiters",
                    json!({"comment_source": source}),
                    json!(expected),
                    json!(observed),
                );
            }
        }
        // ---- (b) the blanking closures, through real grammars and the comments iterator ----
        struct Lang {
            name: &'static str,
            parser: TreeSitterCommentsParser,
            sources: Vec<String>,
        }
        let tag_lines = ["<block name=\"n\">", "</block>", "text - with # and // and <!-- inside", "\u{e9} <block a='*'>"];
        let mut langs = vec![
            Lang {
                name: "python (python_style_comments_parser)",
                parser: python_style_comments_parser(&tree_sitter_python::LANGUAGE.into(), "comment"),
                sources: tag_lines.iter().flat_map(|t| vec![format!("# {t}\nx = 1\n"), format!("x = 1  #{t}\n    ## {t}\n"), format!("\t#\t{t}")]).collect(),
            },
            Lang {
                name: "javascript (c_style_comments_parser)",
                parser: c_style_comments_parser(&tree_sitter_javascript::LANGUAGE.into(), "comment"),
                sources: tag_lines
                    .iter()
                    .flat_map(|t| {
                        vec![
                            format!("// {t}\nlet x = 1;\n"),
                            format!("let x = 1; //{t}\n  /// {t}\n"),
                            format!("/* {t} */ let y = 2; /** {t}\n\t * {t}\n   * second\n */\n"),
                            format!("/*\n\t*\t{t}\n*/"),
                        ]
                    })
                    .collect(),
            },
            Lang {
                name: "java (c_style_line_and_block_comments_parser)",
                parser: c_style_line_and_block_comments_parser(&tree_sitter_java::LANGUAGE.into(), "line_comment", "block_comment"),
                sources: tag_lines.iter().flat_map(|t| vec![format!("// {t}\nclass A {{}}\n"), format!("class A {{ /* {t}\n\t * {t} */ }} // {t}\n")]).collect(),
            },
            Lang {
                name: "html (xml_style_comments_parser)",
                parser: xml_style_comments_parser(&tree_sitter_html::LANGUAGE.into(), "comment"),
                sources: tag_lines.iter().filter(|t| !t.contains("<!--")).flat_map(|t| vec![format!("<!-- {t} -->\n<p>x</p>\n"), format!("<div>\n  <!--{t}\n   second - line\n-->\n</div>")]).collect(),
            },
        ];
        for lang in langs.iter_mut() {
            for source in &lang.sources {
                let comments: Vec<Comment> = lang.parser.parse(source).collect();
                let input = json!({"grammar": lang.name, "file_text": source});
                if comments.is_empty() {
                    cex_fail("N1", "every generated source holds at least one comment", input, json!(">= 1 comment"), json!(0));
                }
                for c in &comments {
                    cases += 1;
                    let src = &source[c.source_range.clone()];
                    generic_checks("N1", lang.name, src, &c.comment_text, &input);
                    // delimiter-specific expectations
                    let expected = if let Some(rest) = src.strip_prefix("<!--") {
                        rest.strip_suffix("-->").map(|inner| format!("    {inner}   "))
                    } else if src.starts_with("/*") {
                        None // covered by (a); only the generic checks apply here
                    } else if let Some(rest) = src.strip_prefix("//") {
                        Some(format!("  {rest}"))
                    } else if let Some(rest) = src.strip_prefix('#') {
                        Some(format!(" {rest}"))
                    } else {
                        None
                    };
                    if let Some(e) = expected {
                        if e != c.comment_text {
                            cex_fail(
                                "N1",
                                "line / XML comments: only the opening (and closing) delimiter is blanked - `//` -> 2 spaces, `#` -> 1 space, `<!--` -> 4 spaces, `-->` -> 3 spaces",
                                json!({"grammar": lang.name, "file_text": source, "comment_source": src}),
                                json!(e),
                                json!(c.comment_text),
                            );
                        }
                    }
                    // tags written in the comment survive verbatim at the same offset
                    for t in ["<block name=\"n\">", "</block>", "<block a='*'>"] {
                        if let Some(p) = src.find(t) {
                            if c.comment_text.get(p..p + t.len()) != Some(t) {
                                cex_fail("N1", "a block tag inside a comment appears in the comment text unchanged and at the same byte offset", input.clone(), json!({"tag": t, "offset": p}), json!(c.comment_text));
                            }
                        }
                    }
                    // positions agree with the byte range (1-based line / byte column)
                    let before = &source[..c.source_range.start];
                    let line = before.matches('\n').count() + 1;
                    let col = c.source_range.start - before.rfind('\n').map_or(0, |p| p + 1) + 1;
                    if (c.position_range.start.line, c.position_range.start.character) != (line, col) {
                        cex_fail("N1", "a comment's start position is the 1-based line / byte column of its first byte", input.clone(), json!([line, col]), json!([c.position_range.start.line, c.position_range.start.character]));
                    }
                }
            }
        }
        cex_none(
            "N1",
            cases,
            "c_style_multiline_comment_processor on block comments of 1..=2 lines over 90 line shapes (indent in {none, space, TAB, mixed, NBSP} x {no star, *, **} x 6 texts incl. tags and multi-byte text), 3 lines over 23 shapes, CRLF variants, 3 nested block comments; plus the `#`, `//`, `/* */`, `<!-- -->` closures driven through the python, javascript, java and html grammars on 44 generated sources",
        );
    }
}
