
// ---------------------------------------------------------------------------------------------
// verif_cex: small-scope exhaustive differential harness for src/language_parsers/mod.rs
// unit: N1 (c_style_multiline_comment_processor + the `//`, `#`, `<!-- -->` blanking closures)
//                                   (see /verif/cex/README.md, /verif/cex/MAP.json)
// This text is appended verbatim to a scratch copy of src/language_parsers/mod.rs.
// ---------------------------------------------------------------------------------------------
#[cfg(test)]
#[allow(unused_imports, dead_code, clippy::all)]
mod verif_cex {
    use super::*;
    use serde_json::{Value, json};

    fn cex_fail(unit: &str, what: &str, input: Value, expected: Value, observed: Value) -> ! {
        println!(
            "VERIF-CEX {}",
            json!({"unit": unit, "what": what, "input": input, "expected": expected, "observed": observed})
        );
        panic!("counterexample for unit {unit}: {what}");
    }

    fn cex_none(unit: &str, cases: u64, bound: &str) {
        println!(
            "VERIF-CEX-NONE {}",
            json!({"unit": unit, "cases": cases, "bound": bound})
        );
    }

    /// One line of a block comment's inside: indentation, an optional decorative star run, text.
    #[derive(Clone, Copy)]
    struct Piece {
        indent: &'static str,
        stars: &'static str,
        text: &'static str,
    }

    /// C03 ("comment with its delimiters blanked out, same byte length as the source range, so tag
    /// offsets map back to source positions") for a C-style block comment built from pieces:
    /// `/*` and the closing `*/` become two spaces each; on every line whose first non-blank
    /// character is `*`, that one star becomes a space; everything else - text, further stars,
    /// indentation (spaces or TABs), line breaks - stays byte for byte.
    fn build(pieces: &[Piece], eol: &str) -> (String, String) {
        let mut source = String::from("/*");
        let mut expected = String::from("  ");
        for (i, p) in pieces.iter().enumerate() {
            if i > 0 {
                source.push_str(eol);
                expected.push_str(eol);
            }
            source.push_str(p.indent);
            expected.push_str(p.indent);
            if !p.stars.is_empty() {
                source.push_str(p.stars);
                expected.push(' ');
                expected.push_str(&p.stars[1..]);
            }
            source.push_str(p.text);
            expected.push_str(p.text);
        }
        source.push_str("*/");
        expected.push_str("  ");
        (source, expected)
    }

    fn generic_checks(unit: &str, what_kind: &str, source: &str, text: &str, input: &Value) {
        // same byte length
        if source.len() != text.len() {
            cex_fail(unit, &format!("{what_kind}: the comment text must have the same byte length as the comment in the source"), input.clone(), json!({"len": source.len()}), json!({"len": text.len(), "comment_text": text}));
        }
        // every line break at the same offset, every other byte either unchanged or a delimiter character replaced by a space
        for (i, (s, t)) in source.bytes().zip(text.bytes()).enumerate() {
            let ok = s == t || (t == b' ' && matches!(s, b'/' | b'*' | b'#' | b'<' | b'!' | b'-' | b'>'));
            if !ok || ((s == b'\n') != (t == b'\n')) {
                cex_fail(
                    unit,
                    &format!("{what_kind}: outside the blanked delimiters the comment text is the source text, byte for byte (line breaks included)"),
                    input.clone(),
                    json!({"byte_offset": i, "source_byte": (s as char).to_string()}),
                    json!({"byte_offset": i, "text_byte": (t as char).to_string(), "comment_text": text}),
                );
            }
        }
    }

    #[test]
    fn cex_N1() {
        let mut cases = 0u64;
        // ---- (a) c_style_multiline_comment_processor on comments assembled from pieces ----
        let indents = ["", " ", "\t", "  \t ", "\u{a0}"];
        let stars = ["", "*", "**"];
        let texts = ["", "x", " x * y", " <block a=\"*\">", "\u{e9}*", " </block> "];
        let mut pieces: Vec<Piece> = Vec::new();
        for indent in indents {
            for s in stars {
                for text in texts {
                    // ground truth needs "first non-blank char is a star" <=> stars non-empty:
                    // texts never start with a star, and `x`-like texts directly after an empty
                    // star run are fine.
                    pieces.push(Piece { indent, stars: s, text });
                }
            }
        }
        let mut check_block = |ps: &[Piece], eol: &str, cases: &mut u64| {
            let (source, expected) = build(ps, eol);
            // `/**/`-like degenerate overlaps of the two delimiters are not comments the grammars hand over
            let observed = c_style_multiline_comment_processor(&source);
            *cases += 1;
            let input = json!({"comment_source": source});
            if observed != expected {
                generic_checks("N1", "block comment", &source, &observed, &input);
                cex_fail(
                    "N1",
                    "c_style_multiline_comment_processor: `/*`, the closing `*/` and ONE decorative star per line (the first non-blank character, after spaces or TABs alike) become spaces; nothing else changes",
                    input,
                    json!(expected),
                    json!(observed),
                );
            }
        };
        for a in &pieces {
            check_block(&[*a], "\n", &mut cases);
            for b in &pieces {
                check_block(&[*a, *b], "\n", &mut cases);
            }
        }
        // three lines: a thinner product, LF and CRLF
        let few: Vec<Piece> = pieces.iter().enumerate().filter(|(i, _)| i % 4 == 1).map(|(_, p)| *p).collect();
        for a in &few {
            for b in &few {
                for c in &few {
                    check_block(&[*a, *b, *c], "\n", &mut cases);
                }
                check_block(&[*a, *b], "\r\n", &mut cases);
            }
        }
        // nested block comments (legal in Rust, Swift, Kotlin): only the OUTER delimiters are blanked
        for (source, expected) in [
            ("/* a /* b */ c */", "   a /* b */ c   "),
            ("/* <block> /* x */\n * </block> */", "   <block> /* x */\n   </block>   "),
            ("/*/* */*/", "  /* */  "),
        ] {
            let observed = c_style_multiline_comment_processor(source);
            cases += 1;
            if observed != expected {
                cex_fail(
                    "N1",
                    "c_style_multiline_comment_processor on a nested block comment: only the first `/*` and the LAST `*/` are delimiters",
                    json!({"comment_source": source}),
                    json!(expected),
                    json!(observed),
                );
            }
        }
        // ---- (b) the blanking closures, through real grammars and the comments iterator ----
        struct Lang {
            name: &'static str,
            parser: TreeSitterCommentsParser,
            sources: Vec<String>,
        }
        let tag_lines = ["<block name=\"n\">", "</block>", "text - with # and // and <!-- inside", "\u{e9} <block a='*'>"];
        let mut langs = vec![
            Lang {
                name: "python (python_style_comments_parser)",
                parser: python_style_comments_parser(&tree_sitter_python::LANGUAGE.into(), "comment"),
                sources: tag_lines.iter().flat_map(|t| vec![format!("# {t}\nx = 1\n"), format!("x = 1  #{t}\n    ## {t}\n"), format!("\t#\t{t}")]).collect(),
            },
            Lang {
                name: "javascript (c_style_comments_parser)",
                parser: c_style_comments_parser(&tree_sitter_javascript::LANGUAGE.into(), "comment"),
                sources: tag_lines
                    .iter()
                    .flat_map(|t| {
                        vec![
                            format!("// {t}\nlet x = 1;\n"),
                            format!("let x = 1; //{t}\n  /// {t}\n"),
                            format!("/* {t} */ let y = 2; /** {t}\n\t * {t}\n   * second\n */\n"),
                            format!("/*\n\t*\t{t}\n*/"),
                        ]
                    })
                    .collect(),
            },
            Lang {
                name: "java (c_style_line_and_block_comments_parser)",
                parser: c_style_line_and_block_comments_parser(&tree_sitter_java::LANGUAGE.into(), "line_comment", "block_comment"),
                sources: tag_lines.iter().flat_map(|t| vec![format!("// {t}\nclass A {{}}\n"), format!("class A {{ /* {t}\n\t * {t} */ }} // {t}\n")]).collect(),
            },
            Lang {
                name: "html (xml_style_comments_parser)",
                parser: xml_style_comments_parser(&tree_sitter_html::LANGUAGE.into(), "comment"),
                sources: tag_lines.iter().filter(|t| !t.contains("<!--")).flat_map(|t| vec![format!("<!-- {t} -->\n<p>x</p>\n"), format!("<div>\n  <!--{t}\n   second - line\n-->\n</div>")]).collect(),
            },
        ];
        for lang in langs.iter_mut() {
            for source in &lang.sources {
                let comments: Vec<Comment> = lang.parser.parse(source).collect();
                let input = json!({"grammar": lang.name, "file_text": source});
                if comments.is_empty() {
                    cex_fail("N1", "every generated source holds at least one comment", input, json!(">= 1 comment"), json!(0));
                }
                for c in &comments {
                    cases += 1;
                    let src = &source[c.source_range.clone()];
                    generic_checks("N1", lang.name, src, &c.comment_text, &input);
                    // delimiter-specific expectations
                    let expected = if let Some(rest) = src.strip_prefix("<!--") {
                        rest.strip_suffix("-->").map(|inner| format!("    {inner}   "))
                    } else if src.starts_with("/*") {
                        None // covered by (a); only the generic checks apply here
                    } else if let Some(rest) = src.strip_prefix("//") {
                        Some(format!("  {rest}"))
                    } else if let Some(rest) = src.strip_prefix('#') {
                        Some(format!(" {rest}"))
                    } else {
                        None
                    };
                    if let Some(e) = expected {
                        if e != c.comment_text {
                            cex_fail(
                                "N1",
                                "line / XML comments: only the opening (and closing) delimiter is blanked - `//` -> 2 spaces, `#` -> 1 space, `<!--` -> 4 spaces, `-->` -> 3 spaces",
                                json!({"grammar": lang.name, "file_text": source, "comment_source": src}),
                                json!(e),
                                json!(c.comment_text),
                            );
                        }
                    }
                    // tags written in the comment survive verbatim at the same offset
                    for t in ["<block name=\"n\">", "</block>", "<block a='*'>"] {
                        if let Some(p) = src.find(t) {
                            if c.comment_text.get(p..p + t.len()) != Some(t) {
                                cex_fail("N1", "a block tag inside a comment appears in the comment text unchanged and at the same byte offset", input.clone(), json!({"tag": t, "offset": p}), json!(c.comment_text));
                            }
                        }
                    }
                    // positions agree with the byte range (1-based line / byte column)
                    let before = &source[..c.source_range.start];
                    let line = before.matches('\n').count() + 1;
                    let col = c.source_range.start - before.rfind('\n').map_or(0, |p| p + 1) + 1;
                    if (c.position_range.start.line, c.position_range.start.character) != (line, col) {
                        cex_fail("N1", "a comment's start position is the 1-based line / byte column of its first byte", input.clone(), json!([line, col]), json!([c.position_range.start.line, c.position_range.start.character]));
                    }
                }
            }
        }
        cex_none(
            "N1",
            cases,
            "c_style_multiline_comment_processor on block comments of 1..=2 lines over 90 line shapes (indent in {none, space, TAB, mixed, NBSP} x {no star, *, **} x 6 texts incl. tags and multi-byte text), 3 lines over 23 shapes, CRLF variants, 3 nested block comments; plus the `#`, `//`, `/* */`, `<!-- -->` closures driven through the python, javascript, java and html grammars on 44 generated sources",
        );
    }
}
// ---------------------------------------------------------------------------------------------
// verif_cex_treewalk: differential harness for group `treewalk` (units W1, W3) AND for the ASSUMED
// tree-sitter cursor contract of /verif/contracts/prelude/treewalk_ts.rs (T-ext).
// To use: append this text verbatim to a scratch copy of src/language_parsers/mod.rs (like the
// `src__*.rs` files of this directory; the module name differs from `verif_cex`, so it can be
// appended after src__language_parsers__mod.rs) and run
//   cargo test --offline --lib verif_cex_treewalk -- --nocapture
// Oracle (independent of TreeCursor): the tree is read with `Node::child(i)` / `child_count()`.
//   (a) cursor contract, at EVERY node of every tree: `goto_first_child` returns true iff the node
//       has children and then rests on child 0; `goto_next_sibling` returns true iff the node is not
//       the root and not a last child and then rests on the next child of its parent;
//       `goto_parent` returns true iff the node is not the root and then rests on the parent;
//       a move that returns false leaves the cursor where it was; `walk()` starts at the root;
//   (b) W3/W1: the real `CommentsIterator` yields exactly the comments of the recognised nodes of the
//       recursive pre-order listing, in that order, with 1-based positions and the node's byte range;
//       a further `next()` after the last comment returns `None`;
//   (c) the T-ext premises: rows/columns <= isize::MAX, children inside the parent's byte span,
//       siblings ordered by position (`spans_ordered`).
// ---------------------------------------------------------------------------------------------
#[cfg(test)]
#[allow(unused_imports, dead_code, clippy::all)]
mod verif_cex_treewalk {
    use super::*;
    use serde_json::{Value, json};

    fn cex_fail(unit: &str, what: &str, input: Value, expected: Value, observed: Value) -> ! {
        println!(
            "VERIF-CEX {}",
            json!({"unit": unit, "what": what, "input": input, "expected": expected, "observed": observed})
        );
        panic!("counterexample for unit {unit}: {what}");
    }

    fn cex_none(unit: &str, cases: u64, bound: &str) {
        println!("VERIF-CEX-NONE {}", json!({"unit": unit, "cases": cases, "bound": bound}));
    }

    fn preorder<'a>(n: Node<'a>, out: &mut Vec<Node<'a>>) {
        out.push(n);
        for i in 0..n.child_count() {
            preorder(n.child(i as u32).unwrap(), out);
        }
    }

    fn describe(n: &Node) -> Value {
        json!({"kind": n.kind(), "bytes": [n.start_byte(), n.end_byte()]})
    }

    /// (a) + (c) at node `n` reached by `cursor`; recursion over children with the cursor moved along.
    fn check_cursor<'a>(lang: &str, src: &str, cursor: &TreeCursor<'a>, n: Node<'a>, parent: Option<(Node<'a>, usize)>, cases: &mut u64) {
        let input = json!({"language": lang, "source": src, "node": describe(&n)});
        *cases += 1;
        if cursor.node() != n {
            cex_fail("W3", "cursor rests on the expected node", input, describe(&n), describe(&cursor.node()));
        }
        // (c) premises
        for p in [n.start_position(), n.end_position()] {
            if p.row > isize::MAX as usize || p.column > isize::MAX as usize {
                cex_fail("W1", "rows and columns fit isize (positions_fit)", input, json!("<= isize::MAX"), json!([p.row, p.column]));
            }
        }
        if n.start_byte() > n.end_byte() {
            cex_fail("W3", "spans_ordered: start <= end", input, json!(null), describe(&n));
        }
        if let Some((p, i)) = parent {
            if !(p.start_byte() <= n.start_byte() && n.end_byte() <= p.end_byte()) {
                cex_fail("W3", "spans_ordered: child inside parent", input, describe(&p), describe(&n));
            }
            if i > 0 {
                let prev = p.child((i - 1) as u32).unwrap();
                if prev.end_byte() > n.start_byte() {
                    cex_fail("W3", "spans_ordered: siblings ordered by position", input, describe(&prev), describe(&n));
                }
            }
        }
        // goto_first_child
        let mut c = cursor.clone();
        let moved = c.goto_first_child();
        if moved != (n.child_count() > 0) {
            cex_fail("W3", "goto_first_child returns true iff the node has children", input, json!(n.child_count() > 0), json!(moved));
        }
        if moved && c.node() != n.child(0).unwrap() {
            cex_fail("W3", "goto_first_child rests on child 0", input, describe(&n.child(0).unwrap()), describe(&c.node()));
        }
        if !moved && c.node() != n {
            cex_fail("W3", "a failed goto_first_child does not move", input, describe(&n), describe(&c.node()));
        }
        // goto_next_sibling
        let mut c = cursor.clone();
        let moved = c.goto_next_sibling();
        let expect_sib = match parent {
            Some((p, i)) if i + 1 < p.child_count() => Some(p.child((i + 1) as u32).unwrap()),
            _ => None,
        };
        if moved != expect_sib.is_some() {
            cex_fail("W3", "goto_next_sibling returns true iff there is a next sibling (never at the root)", input, json!(expect_sib.is_some()), json!(moved));
        }
        if let Some(s) = expect_sib {
            if c.node() != s {
                cex_fail("W3", "goto_next_sibling rests on the next child of the parent", input, describe(&s), describe(&c.node()));
            }
        } else if c.node() != n {
            cex_fail("W3", "a failed goto_next_sibling does not move", input, describe(&n), describe(&c.node()));
        }
        // goto_parent
        let mut c = cursor.clone();
        let moved = c.goto_parent();
        if moved != parent.is_some() {
            cex_fail("W3", "goto_parent returns true iff the node is not the root", input, json!(parent.is_some()), json!(moved));
        }
        match parent {
            Some((p, _)) => {
                if c.node() != p {
                    cex_fail("W3", "goto_parent rests on the parent", input, describe(&p), describe(&c.node()));
                }
            }
            None => {
                if c.node() != n {
                    cex_fail("W3", "a failed goto_parent does not move", input, describe(&n), describe(&c.node()));
                }
            }
        }
        // children, cursor moved along with goto_first_child / goto_next_sibling
        if n.child_count() > 0 {
            let mut c = cursor.clone();
            c.goto_first_child();
            for i in 0..n.child_count() {
                check_cursor(lang, src, &c, n.child(i as u32).unwrap(), Some((n, i)), cases);
                if i + 1 < n.child_count() {
                    c.goto_next_sibling();
                }
            }
        }
    }

    fn visitors() -> Vec<(&'static str, fn(&Node, &str) -> Option<String>)> {
        vec![
            ("every node", |n, _s| Some(format!("{}@{}", n.kind(), n.start_byte()))),
            ("leaves only", |n, _s| if n.child_count() == 0 { Some(n.kind().to_string()) } else { None }),
            ("inner nodes only", |n, _s| if n.child_count() > 0 { Some(n.kind().to_string()) } else { None }),
            ("kinds containing `comment`", |n, s| if n.kind().contains("comment") { Some(s[n.byte_range()].to_string()) } else { None }),
            ("no node", |_n, _s| None),
            ("root only", |n, _s| if n.parent().is_none() { Some(String::from("root")) } else { None }),
        ]
    }

    #[test]
    fn cex_W3() {
        let languages: Vec<(&str, Language)> = vec![
            ("rust", tree_sitter_rust::LANGUAGE.into()),
            ("python", tree_sitter_python::LANGUAGE.into()),
            ("c", tree_sitter_c::LANGUAGE.into()),
            ("html", tree_sitter_html::LANGUAGE.into()),
            ("javascript", tree_sitter_javascript::LANGUAGE.into()),
            ("bash", tree_sitter_bash::LANGUAGE.into()),
        ];
        let sources: Vec<&str> = vec![
            "",
            "\n",
            "x",
            "// a\n",
            "/* a */ /* b */",
            "# <block>\nx = 1\n# </block>\n",
            "fn main() { // c1\n  let x = 1; /* c2 */\n}\n// c3",
            "fn f( { /* unterminated",
            "<!-- a --><p><!-- b --><b>x</b></p><!-- c -->",
            "def f(:\n  # c\n    return (\n",
            "int main(void) { return 0; } /* <block name=\"x\"> */ int a; /* </block> */",
            "a(b(c(d(e(f(g(1)))))))\n// deep\n",
            "\u{e9}\u{e9} // \u{fc}\n\t/* \u{4e2d} */\r\n",
            include_str!("mod.rs"),
            include_str!("../block_parser.rs"),
        ];
        let mut cases: u64 = 0;
        for (lname, lang) in &languages {
            for src in &sources {
                // (a), (c): the cursor contract on the real tree
                let mut p = Parser::new();
                p.set_language(lang).unwrap();
                let tree = p.parse(src, None).unwrap();
                let root = tree.root_node();
                check_cursor(lname, src, &tree.walk(), root, None, &mut cases);
                // (b): the real iterator against the recursive pre-order listing
                for (vname, vf) in visitors() {
                    let input = json!({"language": lname, "source": src, "visitor": vname});
                    let mut cp = TreeSitterCommentsParser::new(lang, Box::new(vf));
                    let got: Vec<Comment> = {
                        let mut it = cp.parse(src);
                        let mut got = Vec::new();
                        while let Some(c) = it.next() {
                            got.push(c);
                            if got.len() > 1_000_000 {
                                cex_fail("W3", "the iterator terminates", input.clone(), json!(null), json!("more than 10^6 items"));
                            }
                        }
                        got
                    };
                    let mut p2 = Parser::new();
                    p2.set_language(lang).unwrap();
                    let tree2 = p2.parse(src, None).unwrap();
                    let mut nodes = Vec::new();
                    preorder(tree2.root_node(), &mut nodes);
                    let mut want: Vec<Comment> = Vec::new();
                    for n in &nodes {
                        if let Some(text) = vf(n, src) {
                            want.push(Comment {
                                position_range: Position::new(n.start_position().row + 1, n.start_position().column + 1)
                                    ..Position::new(n.end_position().row + 1, n.end_position().column + 1),
                                source_range: n.start_byte()..n.end_byte(),
                                comment_text: text,
                            });
                        }
                    }
                    cases += 1;
                    if got != want {
                        let k = got.iter().zip(want.iter()).position(|(a, b)| a != b).unwrap_or(got.len().min(want.len()));
                        cex_fail(
                            "W3",
                            "the iterator yields exactly the comments of the recognised nodes, each once, in pre-order",
                            input,
                            json!({"count": want.len(), "first_difference_at": k, "item": format!("{:?}", want.get(k))}),
                            json!({"count": got.len(), "item": format!("{:?}", got.get(k))}),
                        );
                    }
                }
            }
        }
        cex_none("W3", cases, "6 grammars x 15 sources (empty, syntax errors, unterminated comment, non-ASCII, CRLF, two source files of the crate) x 6 visitors; cursor contract checked at every node");
    }
}
