
// ---------------------------------------------------------------------------------------------
// verif_trust: CONFORMANCE TESTS OF THE TRUSTED BASE
// The proofs in /verif/contracts rest on assumed specifications of std / dependency functions
// (`external_body` shims, `assume_specification`s, axioms in /verif/contracts/prelude/*.rs). Every
// assumption that states a checkable fact is transcribed here into a tiny executable function
// (NOT a call of the function under test) and compared with the REAL function on enumerated
// small inputs (incl. multi-byte, empty, CR/LF). A deviation is a FALSE ASSUMPTION.
// units: T.strings T.lines T.split T.utf8 T.sort T.option T.merge T.unquote T.globset T.paths T.regex T.unidiff
// This text is appended verbatim to a scratch copy of src/lib.rs.
//
// Unlike the cex_* harnesses, a topic runs ALL its checks and then prints ONE summary line:
// VERIF-CEX-NONE, or VERIF-CEX whose `observed.all_deviations` lists every false assumption found
// (at most 3 inputs per specification).
// ---------------------------------------------------------------------------------------------
#[cfg(test)]
#[allow(unused_imports, dead_code, non_snake_case, clippy::all)]
mod verif_trust {
    use serde_json::{Value, json};
    use std::cmp::Ordering;

    struct Topic {
        unit: &'static str,
        cases: u64,
        deviations: Vec<Value>,
        per_spec: std::collections::HashMap<String, usize>,
    }

    impl Topic {
        fn new(unit: &'static str) -> Self {
            Topic { unit, cases: 0, deviations: Vec::new(), per_spec: std::collections::HashMap::new() }
        }

        /// one comparison of an assumed specification with the real function
        fn check(&mut self, spec: &str, spec_text: &str, input: Value, expected_by_spec: Value, real: Value) {
            self.cases += 1;
            if expected_by_spec != real {
                let n = self.per_spec.entry(spec.to_string()).or_insert(0);
                *n += 1;
                if *n <= 3 {
                    self.deviations.push(json!({"spec": spec, "spec_text": spec_text, "input": input, "spec_says": expected_by_spec, "real_function_gives": real}));
                }
            }
        }

        fn finish(self, bound: &str) {
            if self.deviations.is_empty() {
                println!("VERIF-CEX-NONE {}", json!({"unit": self.unit, "cases": self.cases, "bound": bound}));
            } else {
                let first = self.deviations[0].clone();
                println!(
                    "VERIF-CEX {}",
                    json!({
                        "unit": self.unit,
                        "what": format!("FALSE ASSUMPTION in the trusted base: {} ({} specification(s) deviate)", first["spec"], self.per_spec.len()),
                        "input": first["input"],
                        "expected": first["spec_says"],
                        "observed": {"real_function_gives": first["real_function_gives"], "spec_text": first["spec_text"], "all_deviations": self.deviations, "cases": self.cases},
                    })
                );
                panic!("counterexample for unit {}: false assumption(s) in the trusted base", self.unit);
            }
        }
    }

    fn strings(alphabet: &[char], max_len: usize) -> Vec<String> {
        let mut out = vec![String::new()];
        let mut layer = vec![String::new()];
        for _ in 0..max_len {
            let mut next = Vec::new();
            for s in &layer {
                for c in alphabet {
                    let mut t = s.clone();
                    t.push(*c);
                    next.push(t);
                }
            }
            out.extend(next.iter().cloned());
            layer = next;
        }
        out
    }

    fn chars(s: &str) -> Vec<char> {
        s.chars().collect()
    }

    fn text(v: &[char]) -> String {
        v.iter().collect()
    }

    /// byte offset of sub-slice `a` inside `b` (E9: `a.as_ptr() as usize - b.as_ptr() as usize`)
    fn offset_in(a: &str, b: &str) -> usize {
        a.as_ptr() as usize - b.as_ptr() as usize
    }

    // =========================================================================================
    // T.strings  (prelude/strings.rs, tstr_mod.rs)
    // =========================================================================================

    /// strip_prefix_spec: `if p.len() <= s.len() && s.subrange(0, p.len()) == p { Some(s.subrange(p.len(), s.len())) } else { None }`
    fn strip_prefix_spec(s: &[char], p: &[char]) -> Option<Vec<char>> {
        if p.len() <= s.len() && s[..p.len()] == *p { Some(s[p.len()..].to_vec()) } else { None }
    }

    /// count_true(lines, keep, n)
    fn count_true(lines: &[Vec<char>], keep: &dyn Fn(&[char]) -> bool, n: i64) -> u64 {
        if n <= 0 { 0 } else { count_true(lines, keep, n - 1) + if keep(&lines[(n - 1) as usize]) { 1 } else { 0 } }
    }

    #[test]
    fn cex_T_strings() {
        let mut t = Topic::new("T.strings");
        let pool = strings(&['a', 'b', '\u{e9}', ' ', '"'], 4);
        let pats = strings(&['a', '\u{e9}', ' ', '"'], 2);
        for s in &pool {
            for p in &pats {
                t.check(
                    "verif_strip_prefix_str / strip_prefix_spec",
                    "opt_view(r) == strip_prefix_spec(s@, p@)",
                    json!({"s": s, "p": p}),
                    json!(strip_prefix_spec(&chars(s), &chars(p)).map(|v| text(&v))),
                    json!(s.strip_prefix(p.as_str())),
                );
            }
            for c in ['a', '\u{e9}', '"', ' '] {
                t.check(
                    "verif_strip_prefix_char / strip_prefix_spec",
                    "opt_view(r) == strip_prefix_spec(s@, seq![p])",
                    json!({"s": s, "p": c.to_string()}),
                    json!(strip_prefix_spec(&chars(s), &[c]).map(|v| text(&v))),
                    json!(s.strip_prefix(c)),
                );
            }
            t.check("verif_chars_count", "r == s@.len()", json!({"s": s}), json!(chars(s).len()), json!(s.chars().count()));
        }
        // the trim family: trim, trim_start and trim_ascii each have their OWN uninterpreted front offset
        // (trim_lead / trim_start_lead / trim_ascii_lead). An earlier prelude gave all three `trim_lead`, which this
        // harness refuted (" ": trim at offset 0, trim_start / trim_ascii at offset 1); what remains checkable
        // is the bound of each and the fixed offset 0 of trim_end.
        let ws_pool = strings(&['a', ' ', '\t', '\n', '\u{a0}', '\u{e9}'], 4);
        for s in &ws_pool {
            let (tr, ts, te, ta) = (s.trim(), s.trim_start(), s.trim_end(), s.trim_ascii());
            t.check("str::trim_end (strings.rs)", "str_offset_in(r, s) == 0, blen(r@) <= blen(s@)", json!({"s": s}), json!([0, true]), json!([offset_in(te, s), te.len() <= s.len()]));
            for (name, r) in [("str::trim", tr), ("str::trim_start", ts), ("str::trim_ascii", ta)] {
                t.check(&format!("{name} (strings.rs) bound"), "<its lead>(s@) + blen(r@) <= blen(s@)", json!({"s": s}), json!(true), json!(offset_in(r, s) + r.len() <= s.len()));
            }
        }
        // lines shims
        let line_pool = strings(&['a', ' ', '\n', '\r', '\u{e9}'], 5);
        let keeps: [(&str, fn(&[char]) -> bool); 3] = [
            ("non-blank", |l| !l.iter().all(|c| c.is_whitespace())),
            ("empty", |l| l.is_empty()),
            ("contains a", |l| l.contains(&'a')),
        ];
        for s in &line_pool {
            let lines: Vec<Vec<char>> = s.lines().map(chars).collect(); // lines_of(s@) as the enumerate shim defines it
            let en: Vec<(usize, &str)> = s.lines().enumerate().collect();
            t.check(
                "verif_lines_enumerate",
                "r@.len() == lines_of(s@).len() && forall i: r@[i].0 == i && r@[i].1@ == lines_of(s@)[i]",
                json!({"s": s}),
                json!(lines.iter().enumerate().map(|(i, l)| (i, text(l))).collect::<Vec<_>>()),
                json!(en),
            );
            t.check("verif_lines_count", "r == lines_of(s@).len()", json!({"s": s}), json!(lines.len()), json!(s.lines().count()));
            for (name, keep) in keeps {
                t.check(
                    "verif_lines_filter_count / count_true",
                    "r == count_true(lines_of(s@), keep, lines_of(s@).len())",
                    json!({"s": s, "keep": name}),
                    json!(count_true(&lines, &keep, lines.len() as i64)),
                    json!(s.lines().filter(|l| keep(&chars(l))).count()),
                );
            }
        }
        // parse_usize_spec is a function of the text: Ok(n) and Err are both determined by the text (sanity: deterministic)
        for s in ["0", "7", "007", "+5", "-1", "", " 1", "1 ", "18446744073709551615", "18446744073709551616", "\u{661}"] {
            let (a, b) = (s.parse::<usize>().ok(), s.parse::<usize>().ok());
            t.check("verif_parse_usize", "r is a function of the text", json!({"s": s}), json!(a), json!(b));
        }
        t.finish("strip_prefix (str and char patterns) on all strings of length <=4 over {a,b,U+00E9,space,quote}; trim / trim_start / trim_end / trim_ascii offsets and bounds on all strings of length <=4 over {a,space,TAB,LF,NBSP,U+00E9}; lines shims on all strings of length <=5 over {a,space,LF,CR,U+00E9} x 3 predicates");
    }

    // =========================================================================================
    // T.lines  (tstr_mod.rs axiom_lines_of_empty; blockp_strings.rs)
    // =========================================================================================

    /// char_len(c): `if c < 0x80 {1} else if c < 0x800 {2} else if c < 0x10000 {3} else {4}`
    fn char_len_spec(c: char) -> usize {
        let x = c as u32;
        if x < 0x80 { 1 } else if x < 0x800 { 2 } else if x < 0x10000 { 3 } else { 4 }
    }

    /// newline_count(t): recursion over drop_last
    fn newline_count(t: &[char]) -> usize {
        if t.is_empty() { 0 } else { newline_count(&t[..t.len() - 1]) + if *t.last().unwrap() == '\n' { 1 } else { 0 } }
    }

    #[test]
    fn cex_T_lines() {
        let mut t = Topic::new("T.lines");
        t.check("axiom_lines_of_empty", "s.len() == 0 ==> lines_of(s).len() == 0", json!({"s": ""}), json!(0), json!("".lines().count()));
        let pool = strings(&['a', '\n', '\r', '\u{e9}', '\u{10348}'], 6);
        for s in &pool {
            let cs = chars(s);
            let expected = newline_count(&cs) + if !cs.is_empty() && *cs.last().unwrap() != '\n' { 1 } else { 0 };
            t.check(
                "axiom_lines_count",
                "lines_of(t).len() == newline_count(t) + if t.len() > 0 && t.last() != '\\n' { 1 } else { 0 }",
                json!({"t": s}),
                json!(expected),
                json!(s.lines().count()),
            );
            t.check("axiom_chars_le_bytes", "t.len() <= blen(t)", json!({"t": s}), json!(true), json!(cs.len() <= s.len()));
            // axiom_prefix_step on every char boundary n < blen
            for (n, c) in s.char_indices() {
                let next = n + char_len_spec(c);
                let ok = next <= s.len() && s.is_char_boundary(next) && {
                    let mut p = chars(&s[..n]);
                    p.push(c);
                    chars(&s[..next]) == p
                };
                t.check(
                    "axiom_prefix_step / char_len",
                    "char_boundary(t, n) && n < blen(t) ==> char_boundary(t, n + char_len(char_at(t, n))) && n + char_len(..) <= blen(t) && prefix_at(t, n + char_len(..)) == prefix_at(t, n).push(char_at(t, n))",
                    json!({"t": s, "n": n}),
                    json!(true),
                    json!(ok),
                );
                t.check("char_len", "char_len(c) == c.len_utf8()", json!({"c": c.to_string()}), json!(char_len_spec(c)), json!(c.len_utf8()));
            }
            for c in ['\n', 'a', '\u{e9}', 'z'] {
                let r = s.rfind(c);
                t.check(
                    "axiom_rfind_char",
                    "rfind_char_spec(t, c) is None <==> !t.contains(c); Some(q) ==> q + char_len(c) <= blen(t)",
                    json!({"t": s, "c": c.to_string()}),
                    json!({"is_none": !cs.contains(&c), "fits": true}),
                    json!({"is_none": r.is_none(), "fits": r.map_or(true, |q| q + char_len_spec(c) <= s.len())}),
                );
            }
            // verif_str_prefix
            for n in 0..=s.len() {
                if s.is_char_boundary(n) {
                    t.check("verif_str_prefix", "blen(r@) == n", json!({"s": s, "n": n}), json!(n), json!(s[..n].len()));
                }
            }
        }
        t.finish("all strings of length <=6 over {a,LF,CR,U+00E9,U+10348}: lines count formula, chars <= bytes, prefix step on every boundary, char_len, rfind facts for 4 chars, prefix lengths");
    }

    // =========================================================================================
    // T.split  (aff_strings.rs, groups/flagsparse.rs)
    // =========================================================================================

    fn occurs_at(s: &[char], p: &[char], i: i64) -> bool {
        0 <= i && (i as usize) + p.len() <= s.len() && s[i as usize..i as usize + p.len()] == *p
    }

    /// split_once_spec: None iff no occurrence, else the texts before / after THE first occurrence
    fn split_once_spec(s: &[char], p: &[char]) -> Option<(Vec<char>, Vec<char>)> {
        let first = (0..=s.len() as i64).find(|i| occurs_at(s, p, *i))?;
        Some((s[..first as usize].to_vec(), s[first as usize + p.len()..].to_vec()))
    }

    /// rsplit_once_spec: the LAST occurrence (occurs_at(i) and no occurrence at any j > i)
    fn rsplit_once_spec(s: &[char], p: &[char]) -> Option<(Vec<char>, Vec<char>)> {
        let last = (0..=s.len() as i64).rev().find(|i| occurs_at(s, p, *i))?;
        Some((s[..last as usize].to_vec(), s[last as usize + p.len()..].to_vec()))
    }

    #[test]
    fn cex_T_split() {
        let mut t = Topic::new("T.split");
        let pool = strings(&['a', 'b', ':', '=', '\u{e9}'], 5);
        let pats = ["", ":", "a", "aa", "ab", "a:", "\u{e9}", "\u{e9}a", "::", "="];
        let pair = |o: Option<(Vec<char>, Vec<char>)>| o.map(|(a, b)| (text(&a), text(&b)));
        for s in &pool {
            let cs = chars(s);
            for p in pats {
                t.check(
                    "verif_split_once_str / split_once_spec",
                    "opt_pair_view(r) == split_once_spec(s@, p@)  (first occurrence; None iff no occurrence)",
                    json!({"s": s, "p": p}),
                    json!(pair(split_once_spec(&cs, &chars(p)))),
                    json!(s.split_once(p)),
                );
                t.check(
                    "verif_rsplit_once_str / rsplit_once_spec",
                    "opt_pair_view(r) == rsplit_once_spec(s@, p@)  (last occurrence)",
                    json!({"s": s, "p": p}),
                    json!(pair(rsplit_once_spec(&cs, &chars(p)))),
                    json!(s.rsplit_once(p)),
                );
            }
            for c in [':', '=', 'a', '\u{e9}'] {
                // first_at(t, c, i): 0 <= i < len && t[i] == c && no c before i
                let first = cs.iter().position(|x| *x == c);
                let expected = first.map(|i| (text(&cs[..i]), text(&cs[i + 1..])));
                t.check(
                    "verif_split_once_char / first_at",
                    "r is None <==> !s@.contains(c); Some(p) ==> exists i: first_at(s@, c, i) && p.0@ == s@.subrange(0, i) && p.1@ == s@.subrange(i + 1, len)",
                    json!({"s": s, "c": c.to_string()}),
                    json!(expected),
                    json!(s.split_once(c)),
                );
                // verif_split_char: the shim's result IS split_char_spec (uninterpreted); the one thing callers read into it:
                // the pieces joined by the separator give the text back, and no piece contains the separator
                let pieces: Vec<&str> = s.split(c).collect();
                t.check(
                    "verif_split_char (sanity, not assumed)",
                    "pieces.join(c) == s && no piece contains c",
                    json!({"s": s, "c": c.to_string()}),
                    json!([s, true]),
                    json!([pieces.join(&c.to_string()), pieces.iter().all(|p| !p.contains(c))]),
                );
            }
        }
        t.finish("all strings of length <=5 over {a,b,:,=,U+00E9} x 10 &str patterns (empty, overlapping `aa`, multi-byte, two-char) for split_once / rsplit_once, x 4 char patterns for split_once(char) and split(char)");
    }

    // =========================================================================================
    // T.utf8  (tagnorm_bytes.rs, tagnorm_norm.rs, diff_std.rs)
    // =========================================================================================

    fn is_cont(b: u8) -> bool {
        (0x80..=0xBF).contains(&b)
    }

    /// byte_boundary(b, n): `n == 0 || n == b.len() || (0 < n < b.len() && !is_cont(b[n]))`
    fn byte_boundary(b: &[u8], n: i64) -> bool {
        n == 0 || n == b.len() as i64 || (0 < n && n < b.len() as i64 && !is_cont(b[n as usize]))
    }

    /// occurs_at(b, q, p) on bytes
    fn b_occurs_at(b: &[u8], q: i64, p: &[u8]) -> bool {
        0 <= q && q as usize + p.len() <= b.len() && b[q as usize..q as usize + p.len()] == *p
    }

    #[test]
    fn cex_T_utf8() {
        let mut t = Topic::new("T.utf8");
        let pool = strings(&['a', '*', '\n', '\u{e9}', '\u{10348}'], 5);
        let pats = ["", "a", "*", "a*", "\u{e9}", "\n", "**", "\u{10348}a"];
        for s in &pool {
            let b = s.as_bytes();
            for n in -1..=(b.len() as i64 + 1) {
                let real = n >= 0 && s.is_char_boundary(n as usize);
                if n >= 0 && n <= b.len() as i64 {
                    t.check("byte_boundary", "byte_boundary(utf8(t), n) is std's is_char_boundary for 0 <= n <= len", json!({"t": s, "n": n}), json!(byte_boundary(b, n)), json!(real));
                }
            }
            // slicing shims, only where the preconditions hold
            for a in 0..=b.len() {
                if !byte_boundary(b, a as i64) {
                    continue;
                }
                t.check("verif_str_from", "utf8(r@) == utf8(s@).subrange(a, len)", json!({"s": s, "a": a}), json!(b[a..].to_vec()), json!(s[a..].as_bytes()));
                t.check("verif_str_to", "utf8(r@) == utf8(s@).subrange(0, b)", json!({"s": s, "b": a}), json!(b[..a].to_vec()), json!(s[..a].as_bytes()));
                for e in a..=b.len() {
                    if byte_boundary(b, e as i64) {
                        t.check("verif_str_range", "utf8(r@) == utf8(s@).subrange(a, b)", json!({"s": s, "a": a, "b": e}), json!(b[a..e].to_vec()), json!(s[a..e].as_bytes()));
                    }
                    if e < b.len() && a <= e + 1 {
                        t.check("verif_bytes_incl", "r@ == utf8(s@).subrange(a, b + 1)", json!({"s": s, "a": a, "b": e}), json!(b[a..e + 1].to_vec()), json!(&s.as_bytes()[a..=e]));
                    }
                }
            }
            for p in pats {
                let pb = p.as_bytes();
                let first = (0..=b.len() as i64).find(|q| b_occurs_at(b, *q, pb));
                let last = (0..=b.len() as i64).rev().find(|q| b_occurs_at(b, *q, pb));
                t.check("verif_find_str", "Some(p) ==> occurs_at(utf8(s), p, utf8(pat)) && no occurrence before p; None ==> no occurrence", json!({"s": s, "pat": p}), json!(first), json!(s.find(p)));
                t.check("verif_rfind_str", "Some(p) ==> occurs_at(..) && no occurrence after p; None ==> no occurrence", json!({"s": s, "pat": p}), json!(last), json!(s.rfind(p)));
                t.check("verif_starts_with_str", "r == occurs_at(utf8(s@), 0, utf8(pat@))", json!({"s": s, "pat": p}), json!(b_occurs_at(b, 0, pb)), json!(s.starts_with(p)));
                if !pb.is_empty() {
                    for to in ["", " ", "xy", "\u{e9}"] {
                        let expected: Vec<u8> = match first {
                            None => b.to_vec(),
                            Some(q) => [&b[..q as usize], to.as_bytes(), &b[q as usize + pb.len()..]].concat(),
                        };
                        t.check("verif_replacen_str (n == 1)", "no occurrence ==> unchanged; first occurrence p ==> utf8(s)[..p] + utf8(to) + utf8(s)[p + len(pat)..]", json!({"s": s, "pat": p, "to": to}), json!(expected), json!(s.replacen(p, to, 1).into_bytes()));
                    }
                }
            }
            for c in ['a', '*', '\n'] {
                t.check("verif_starts_with_char (ASCII)", "r == (utf8(s@).len() > 0 && utf8(s@)[0] == c as u8)", json!({"s": s, "c": c.to_string()}), json!(!b.is_empty() && b[0] == c as u8), json!(s.starts_with(c)));
                let last = (0..b.len()).rev().find(|q| b[*q] == c as u8);
                t.check("verif_rfind_ascii_char", "Some(p) ==> utf8(s)[p] == c && no later byte == c; None ==> no byte == c", json!({"s": s, "c": c.to_string()}), json!(last), json!(s.rfind(c)));
                // split_inclusive facts (ASCII separator)
                let pieces: Vec<&str> = s.split_inclusive(c).collect();
                let flat: Vec<u8> = pieces.iter().flat_map(|p| p.bytes()).collect();
                let facts = json!({
                    "concatenation_is_s": flat == b,
                    "no_piece_empty": pieces.iter().all(|p| !p.is_empty()),
                    "all_but_last_end_with_c": pieces.iter().take(pieces.len().saturating_sub(1)).all(|p| p.as_bytes().last() == Some(&(c as u8))),
                    "c_nowhere_else": pieces.iter().all(|p| p.as_bytes()[..p.len() - 1].iter().all(|x| *x != c as u8)),
                });
                t.check(
                    "verif_split_inclusive_char",
                    "flat_bytes(pieces) == utf8(s@); every piece non-empty; every piece but the last ends with c; c occurs nowhere else in a piece",
                    json!({"s": s, "c": c.to_string()}),
                    json!({"concatenation_is_s": true, "no_piece_empty": true, "all_but_last_end_with_c": true, "c_nowhere_else": true}),
                    facts,
                );
            }
            // find(pred)
            let preds: [(&str, fn(char) -> bool); 3] = [("not whitespace", |c| !c.is_whitespace()), ("is *", |c| c == '*'), ("non-ASCII", |c| !c.is_ascii())];
            for (name, pred) in preds {
                let expected = s.char_indices().find(|(_, c)| pred(*c)).map(|(i, _)| i);
                let r = s.find(pred);
                t.check("verif_find_pred", "Some(p): p < len, a boundary, no char before p satisfies pred, the char at p does; None: no char satisfies pred", json!({"s": s, "pred": name}), json!(expected), json!(r));
            }
            // chars
            let cs = chars(s);
            t.check("verif_first_char", "r == if s@.len() > 0 { Some(s@[0]) } else { None }", json!({"s": s}), json!(cs.first().map(|c| c.to_string())), json!(s.chars().next().map(|c| c.to_string())));
            for n in 0..=cs.len() + 1 {
                t.check("verif_chars_nth", "r == if n < s@.len() { Some(s@[n]) } else { None }", json!({"s": s, "n": n}), json!(cs.get(n).map(|c| c.to_string())), json!(s.chars().nth(n).map(|c| c.to_string())));
            }
            // verif_char_byte_offsets
            let offs: Vec<usize> = s.char_indices().map(|(o, _)| o).collect();
            t.check("verif_char_byte_offsets", "every offset < s.len(); r@.len() == 0 ==> s.len() == 0", json!({"s": s}), json!([true, true]), json!([offs.iter().all(|o| *o < s.len()), !offs.is_empty() || s.is_empty()]));
            // repeat
            for n in 0..=3usize {
                let r = s.repeat(n);
                let rb = r.as_bytes();
                let ok = rb.len() == b.len() * n && (0..rb.len()).all(|i| rb[i] == b[i % b.len()]);
                t.check("str::repeat", "utf8(r).len() == utf8(s).len() * n && forall i: utf8(r)[i] == utf8(s)[i % utf8(s).len()]", json!({"s": s, "n": n}), json!(true), json!(ok));
            }
        }
        for x in ['a', '*', '/', 'z'] {
            t.check("verif_chars_contains", "r == s@.contains(*x)", json!({"array": ["a", "*", "\u{e9}"], "x": x.to_string()}), json!(x == 'a' || x == '*' || x == '\u{e9}'), json!(['a', '*', '\u{e9}'].contains(&x)));
        }
        t.check("String::with_capacity", "r@ == empty", json!({"n": 17}), json!(""), json!(String::with_capacity(17)));
        t.finish("all strings of length <=5 over {a,*,LF,U+00E9,U+10348}: char boundaries, slicing shims on every boundary pair, find/rfind/starts_with/replacen with 8 patterns (incl. empty), split_inclusive / rfind / starts_with for 3 ASCII chars, find(pred) for 3 predicates, first char, nth, char offsets, repeat 0..=3");
    }

    // =========================================================================================
    // T.sort  (blockp_std.rs sort_by, tagnorm_listing.rs sort_by_key, std_range.rs binary_search_by)
    // =========================================================================================

    #[test]
    fn cex_T_sort() {
        let mut t = Topic::new("T.sort");
        // all vectors of length <= 6 over (key 0..=2); elements tagged with their input position
        fn vectors(max_len: usize, keys: u8) -> Vec<Vec<u8>> {
            let mut out: Vec<Vec<u8>> = vec![vec![]];
            let mut layer: Vec<Vec<u8>> = vec![vec![]];
            for _ in 0..max_len {
                let mut next = Vec::new();
                for v in &layer {
                    for k in 0..keys {
                        let mut w = v.clone();
                        w.push(k);
                        next.push(w);
                    }
                }
                out.extend(next.iter().cloned());
                layer = next;
            }
            out
        }
        for keys in vectors(6, 3) {
            let input: Vec<(u8, usize)> = keys.iter().enumerate().map(|(i, k)| (*k, i)).collect();
            // sort_by with a total order on the key only
            let mut a = input.clone();
            a.sort_by(|x, y| x.0.cmp(&y.0));
            let mut ms_in = input.clone();
            ms_in.sort();
            let mut ms_out = a.clone();
            ms_out.sort();
            let sorted = a.windows(2).all(|w| w[0].0.cmp(&w[1].0) != Ordering::Greater) && (0..a.len()).all(|i| (i + 1..a.len()).all(|j| a[i].0.cmp(&a[j].0) != Ordering::Greater));
            t.check(
                "<[T]>::sort_by",
                "len unchanged; to_multiset unchanged; forall i < j: cmp(final[i], final[j]) != Greater",
                json!({"keys": keys, "comparator": "by key"}),
                json!([input.len(), true, true]),
                json!([a.len(), ms_in == ms_out, sorted]),
            );
            // sort_by descending (another total order)
            let mut d = input.clone();
            d.sort_by(|x, y| y.0.cmp(&x.0));
            let sorted_desc = (0..d.len()).all(|i| (i + 1..d.len()).all(|j| d[j].0.cmp(&d[i].0) != Ordering::Greater));
            t.check("<[T]>::sort_by (descending comparator)", "forall i < j: cmp(final[i], final[j]) != Greater", json!({"keys": keys}), json!(true), json!(sorted_desc));
            // sort_by_key: stable_sort_witness - the permutation p with b[i] == a[p[i]] is the input positions
            let mut b = input.clone();
            b.sort_by_key(|x| x.0 as u64);
            let p: Vec<usize> = b.iter().map(|x| x.1).collect();
            let mut p_sorted = p.clone();
            p_sorted.sort();
            let witness = p.len() == input.len()
                && (0..p.len()).all(|i| b[i] == input[p[i]])
                && p_sorted == (0..input.len()).collect::<Vec<_>>()
                && (0..b.len()).all(|i| (i + 1..b.len()).all(|j| b[i].0 <= b[j].0 && (b[i].0 != b[j].0 || p[i] < p[j])));
            t.check(
                "verif_sort_by_key_u64 / stable_sort_witness",
                "exists p: bijection positions(b) -> positions(a), b[i] == a[p[i]], keys ascending, equal keys keep their input order; multiset preserved",
                json!({"keys": keys}),
                json!(true),
                json!(witness),
            );
        }
        // binary_search_by on sorted slices with a comparator consistent with the order
        for len in 0..=7usize {
            // sorted slices with duplicates: values i/2
            for step in [1usize, 2] {
                let s: Vec<i32> = (0..len).map(|i| (i / step) as i32 * 2).collect();
                for target in -1..=(len as i32 * 2 + 1) {
                    let r = s.binary_search_by(|x| x.cmp(&target));
                    let ok = match r {
                        Ok(i) => i < s.len() && s[i].cmp(&target) == Ordering::Equal,
                        Err(_) => s.iter().all(|x| x.cmp(&target) != Ordering::Equal),
                    };
                    t.check(
                        "<[T]>::binary_search_by",
                        "(consistent comparator) Ok(i) ==> i < len && f(s[i]) == Equal; Err ==> forall i: f(s[i]) != Equal",
                        json!({"slice": s, "target": target}),
                        json!(true),
                        json!(ok),
                    );
                }
            }
        }
        t.finish("sort_by (ascending / descending) and sort_by_key on every vector of length <=6 over 3 keys (elements tagged with their input position, so stability is observable); binary_search_by on sorted slices of length <=7 (with and without duplicates) x every target around the values");
    }

    // =========================================================================================
    // T.option  (std_range.rs, diff_std.rs, std_ondemand.rs, tagnorm_norm.rs)
    // =========================================================================================

    #[test]
    fn cex_T_option() {
        let mut t = Topic::new("T.option");
        let opts: [Option<u8>; 4] = [None, Some(0), Some(1), Some(7)];
        let fs: [(&str, fn(u8) -> bool); 3] = [("is zero", |x| x == 0), ("always", |_| true), ("never", |_| false)];
        for a in opts {
            for b in opts {
                t.check("Option::or", "r == if a is Some { a } else { b }", json!({"a": a, "b": b}), json!(if a.is_some() { a } else { b }), json!(a.or(b)));
                t.check("Option::xor", "r == if a is Some && b is None { a } else if a is None && b is Some { b } else { None }", json!({"a": a, "b": b}), json!(if a.is_some() && b.is_none() { a } else if a.is_none() && b.is_some() { b } else { None }), json!(a.xor(b)));
                t.check("Option::or_else", "a is Some ==> r == a; a is None ==> r == f()", json!({"a": a, "f()": b}), json!(match a { Some(_) => a, None => b }), json!(a.or_else(|| b)));
                t.check("Option::unwrap_or_else", "Some(x) ==> r == x; None ==> r == f()", json!({"a": a, "f()": 9}), json!(match a { Some(x) => x, None => 9 }), json!(a.unwrap_or_else(|| 9)));
            }
            for (name, f) in fs {
                t.check("Option::map_or", "Some(x) ==> r == f(x); None ==> r == default", json!({"o": a, "default": true, "f": name}), json!(match a { Some(x) => f(x), None => true }), json!(a.map_or(true, f)));
                t.check("Option::is_none_or", "None ==> r; Some(x) ==> r == f(x)", json!({"o": a, "f": name}), json!(match a { Some(x) => f(x), None => true }), json!(a.is_none_or(f)));
                t.check("Option::is_some_and", "Some(x) ==> r == f(x); None ==> !r", json!({"o": a, "f": name}), json!(match a { Some(x) => f(x), None => false }), json!(a.is_some_and(f)));
                t.check("Option::filter", "None ==> None; Some(x) ==> if p(&x) { Some(x) } else { None }", json!({"o": a, "p": name}), json!(match a { Some(x) if f(x) => Some(x), _ => None }), json!(a.filter(|x| f(*x))));
                t.check("Option::and_then", "Some(x) ==> r == f(x); None ==> None", json!({"o": a, "f": format!("if {name} then Some(x+1)")}), json!(match a { Some(x) => if f(x) { Some(x + 1) } else { None }, None => None }), json!(a.and_then(|x| if f(x) { Some(x + 1) } else { None })));
            }
            t.check("Option::ok_or", "Some(x) ==> Ok(x); None ==> Err(e)", json!({"o": a, "e": "E"}), json!(match a { Some(x) => json!({"Ok": x}), None => json!({"Err": "E"}) }), json!(match a.ok_or("E") { Ok(x) => json!({"Ok": x}), Err(e) => json!({"Err": e}) }));
            t.check("Option::ok_or_else", "Some(x) ==> Ok(x); None ==> Err", json!({"o": a}), json!(a.is_some()), json!(a.ok_or_else(|| "E").is_ok()));
            t.check("Option::<&T>::copied", "None ==> None; Some(x) ==> Some(*x)", json!({"o": a}), json!(a), json!(a.as_ref().copied()));
        }
        let ress: [Result<u8, u8>; 4] = [Ok(0), Ok(5), Err(0), Err(9)];
        for a in ress {
            let j = |r: Result<u8, u8>| match r { Ok(x) => json!({"Ok": x}), Err(e) => json!({"Err": e}) };
            t.check("Result::ok", "Ok(x) ==> Some(x); Err ==> None", j(a), json!(match a { Ok(x) => Some(x), Err(_) => None }), json!(a.ok()));
            t.check("Result::err", "Err(x) ==> Some(x); Ok ==> None", j(a), json!(match a { Err(x) => Some(x), Ok(_) => None }), json!(a.err()));
            t.check("Result::unwrap_or", "Ok(x) ==> x; Err ==> d", j(a), json!(match a { Ok(x) => x, Err(_) => 3 }), json!(a.unwrap_or(3)));
            t.check("Result::unwrap_or_default", "Ok(x) ==> r == x", j(a), json!(match a { Ok(x) => Some(x), Err(_) => None }), json!(match a { Ok(_) => Some(a.unwrap_or_default()), Err(_) => None }));
            t.check("Result::unwrap_or_else", "Ok(x) ==> x; Err(e) ==> f(e)", j(a), json!(match a { Ok(x) => x, Err(e) => e + 1 }), json!(a.unwrap_or_else(|e| e + 1)));
            t.check("Result::map_or", "Ok(x) ==> f(x); Err ==> default", j(a), json!(match a { Ok(x) => x == 0, Err(_) => true }), json!(a.map_or(true, |x| x == 0)));
            t.check("Result::map_or_else", "Ok(x) ==> f(x); Err(e) ==> d(e)", j(a), json!(match a { Ok(x) => x + 1, Err(e) => e + 2 }), json!(a.map_or_else(|e| e + 2, |x| x + 1)));
            t.check("Result::and_then", "Ok(x) ==> f(x); Err(e) ==> Err(e)", j(a), j(match a { Ok(x) => if x == 0 { Ok(1) } else { Err(2) }, Err(e) => Err(e) }), j(a.and_then(|x| if x == 0 { Ok(1) } else { Err(2) })));
            t.check("Result::is_ok_and", "Ok(x) ==> f(x); Err ==> false", j(a), json!(match a { Ok(x) => x == 0, Err(_) => false }), json!(a.is_ok_and(|x| x == 0)));
        }
        let nums = [0usize, 1, 2, 7, usize::MAX - 1, usize::MAX, usize::MAX / 2, usize::MAX / 2 + 1];
        for a in nums {
            for b in nums {
                let (wa, wb) = (a as u128, b as u128);
                t.check("usize::saturating_sub", "r == if a >= b { a - b } else { 0 }", json!({"a": a, "b": b}), json!(if wa >= wb { wa - wb } else { 0 } as u64), json!(a.saturating_sub(b) as u64));
                t.check("usize::saturating_add", "r == if a + b <= usize::MAX { a + b } else { usize::MAX }", json!({"a": a, "b": b}), json!(if wa + wb <= usize::MAX as u128 { wa + wb } else { usize::MAX as u128 } as u64), json!(a.saturating_add(b) as u64));
                t.check("usize::abs_diff", "r == if a >= b { a - b } else { b - a }", json!({"a": a, "b": b}), json!(if wa >= wb { wa - wb } else { wb - wa } as u64), json!(a.abs_diff(b) as u64));
            }
        }
        // iterator shims of prelude/mainw_paths.rs / langc_merge.rs stated over sequences
        let items = [3u8, 1, 4, 1, 5];
        for n in 0..=7usize {
            let expected: Vec<u8> = if n <= items.len() { items[n..].to_vec() } else { vec![] };
            t.check("AncIter::skip (Iterator::skip)", "r.items() == if n <= len { items.skip(n) } else { empty }", json!({"items": items, "n": n}), json!(expected), json!(items.iter().copied().skip(n).collect::<Vec<_>>()));
        }
        for len in 0..=5usize {
            t.check("AncIter::last (Iterator::last)", "len == 0 ==> None; else Some(items.last())", json!({"items": &items[..len]}), json!(items[..len].last()), json!(items[..len].iter().last()));
            for target in 0..=5u8 {
                let expected = items[..len].iter().position(|x| *x == target).map(|i| items[i]);
                t.check("verif_iter_find (Iterator::find)", "the FIRST item satisfying the predicate, None if none does", json!({"items": &items[..len], "pred": format!("== {target}")}), json!(expected), json!(items[..len].iter().copied().find(|x| *x == target)));
            }
            let outs: Vec<Option<u8>> = items[..len].iter().map(|x| if *x != 1 { Some(x * 2) } else { None }).collect();
            fn somes(s: &[Option<u8>]) -> Vec<u8> {
                if s.is_empty() { vec![] } else { let mut v = somes(&s[..s.len() - 1]); if let Some(x) = s[s.len() - 1] { v.push(x); } v }
            }
            t.check("verif_walk_filter_map / somes (Iterator::filter_map)", "pending == somes(outs): the Some payloads, in order", json!({"items": &items[..len]}), json!(somes(&outs)), json!(items[..len].iter().filter_map(|x| if *x != 1 { Some(x * 2) } else { None }).collect::<Vec<_>>()));
            t.check("verif_iter_filter (Iterator::filter)", "r.items() == items.filter(pred)", json!({"items": &items[..len]}), json!(items[..len].iter().copied().fold(vec![], |mut v, x| { if x != 1 { v.push(x); } v })), json!(items[..len].iter().copied().filter(|x| *x != 1).collect::<Vec<_>>()));
            t.check("verif_chain_collect (Iterator::chain)", "r@ == a@ + b@", json!({"a": &items[..len], "b": &items[len..]}), json!(items.to_vec()), json!(items[..len].iter().copied().chain(items[len..].iter().copied()).collect::<Vec<_>>()));
        }
        t.finish("Option::{or,xor,or_else,unwrap_or_else,map_or,is_none_or,is_some_and,filter,and_then,ok_or,ok_or_else,copied} on {None,Some(0),Some(1),Some(7)} x 3 predicates; Result::{ok,err,unwrap_or,unwrap_or_default,unwrap_or_else,map_or,map_or_else,and_then,is_ok_and} on 4 values; usize::{saturating_sub,saturating_add,abs_diff} on 8x8 boundary values; Iterator::{skip,last,find,filter,filter_map,chain} as stated for the iterator stand-ins");
    }

    // =========================================================================================
    // T.merge  (langc_merge.rs: merge_seq vs itertools::Itertools::merge)
    // =========================================================================================

    /// an element ordered by `key` only; `src` tells which input it came from
    #[derive(Clone, Copy, Debug, PartialEq)]
    struct Tagged {
        key: f64,
        src: char,
        pos: usize,
    }

    impl PartialOrd for Tagged {
        fn partial_cmp(&self, other: &Self) -> Option<Ordering> {
            self.key.partial_cmp(&other.key)
        }
    }

    /// le_spec(a, b): partial_cmp == Some(Less) || == Some(Equal)
    fn le_spec(a: &Tagged, b: &Tagged) -> bool {
        matches!(a.partial_cmp(b), Some(Ordering::Less) | Some(Ordering::Equal))
    }

    /// merge_seq(a, b)
    fn merge_seq(a: &[Tagged], b: &[Tagged]) -> Vec<Tagged> {
        if a.is_empty() {
            b.to_vec()
        } else if b.is_empty() {
            a.to_vec()
        } else if le_spec(&a[0], &b[0]) {
            let mut v = vec![a[0]];
            v.extend(merge_seq(&a[1..], b));
            v
        } else {
            let mut v = vec![b[0]];
            v.extend(merge_seq(a, &b[1..]));
            v
        }
    }

    #[test]
    fn cex_T_merge() {
        use itertools::Itertools;
        let mut t = Topic::new("T.merge");
        fn seqs(max_len: usize, keys: &[f64]) -> Vec<Vec<f64>> {
            let mut out: Vec<Vec<f64>> = vec![vec![]];
            let mut layer: Vec<Vec<f64>> = vec![vec![]];
            for _ in 0..max_len {
                let mut next = Vec::new();
                for v in &layer {
                    for k in keys {
                        let mut w = v.clone();
                        w.push(*k);
                        next.push(w);
                    }
                }
                out.extend(next.iter().cloned());
                layer = next;
            }
            out
        }
        // sorted and UNSORTED inputs alike (the specification is the function, for any input); NaN = incomparable
        let all = seqs(4, &[0.0, 1.0, 2.0, f64::NAN]);
        let show = |v: &[Tagged]| v.iter().map(|x| format!("{}{}:{}", x.src, x.pos, x.key)).collect::<Vec<_>>();
        for ka in &all {
            for kb in &all {
                if ka.len() + kb.len() > 6 {
                    continue;
                }
                let a: Vec<Tagged> = ka.iter().enumerate().map(|(i, k)| Tagged { key: *k, src: 'a', pos: i }).collect();
                let b: Vec<Tagged> = kb.iter().enumerate().map(|(i, k)| Tagged { key: *k, src: 'b', pos: i }).collect();
                let expected = merge_seq(&a, &b);
                let real: Vec<Tagged> = a.clone().into_iter().merge(b.clone()).collect();
                t.check(
                    "verif_merge_collect / merge_seq",
                    "r@ == merge_seq(a@, b@): `if a[0] <= b[0] { a[0] then merge(a.tail, b) } else { b[0] then merge(a, b.tail) }`, ties from the FIRST sequence",
                    json!({"a": show(&a), "b": show(&b)}),
                    json!(show(&expected)),
                    json!(show(&real)),
                );
            }
        }
        t.finish("itertools::merge vs merge_seq on every pair of sequences (sorted or not) of total length <=6 over keys {0,1,2,NaN}, elements tagged with their source so that tie-breaking is observable");
    }

    // =========================================================================================
    // T.unquote  (diff_unquote.rs: c_unquote_spec / git_quoted_wf vs REAL git quoting)
    // =========================================================================================

    fn esc_byte(c: u8) -> Option<u8> {
        match c {
            0x61 => Some(0x07),
            0x62 => Some(0x08),
            0x74 => Some(0x09),
            0x6e => Some(0x0a),
            0x76 => Some(0x0b),
            0x66 => Some(0x0c),
            0x72 => Some(0x0d),
            _ => None,
        }
    }

    fn oct_step(v: i64, p: &[u8], idx: usize) -> i64 {
        if idx < p.len() && (0x30..=0x37).contains(&p[idx]) { v * 8 + (p[idx] - 0x30) as i64 } else { v }
    }

    fn oct_after(v0: i64, p: &[u8], j: i64) -> i64 {
        if j <= 0 { v0 } else if j == 1 { oct_step(v0, p, 0) } else { oct_step(oct_step(v0, p, 0), p, 1) }
    }

    /// c_unquote_spec(s)
    fn c_unquote_spec(s: &[u8]) -> Vec<u8> {
        if s.is_empty() {
            vec![]
        } else if s[0] != 0x5c {
            let mut v = vec![s[0]];
            v.extend(c_unquote_spec(&s[1..]));
            v
        } else if s.len() == 1 {
            vec![0x5c]
        } else if let Some(e) = esc_byte(s[1]) {
            let mut v = vec![e];
            v.extend(c_unquote_spec(&s[2..]));
            v
        } else if (0x30..=0x33).contains(&s[1]) {
            let rest = &s[2..];
            let mut v = vec![oct_after((s[1] - 0x30) as i64, rest, 2) as u8];
            v.extend(c_unquote_spec(&rest[std::cmp::min(2, rest.len())..]));
            v
        } else {
            let mut v = vec![s[1]];
            v.extend(c_unquote_spec(&s[2..]));
            v
        }
    }

    /// git_quoted_wf(s)
    fn git_quoted_wf(s: &[u8]) -> bool {
        if s.is_empty() {
            true
        } else if s[0] != 0x5c {
            s[0] != 0x22 && git_quoted_wf(&s[1..])
        } else if s.len() == 1 {
            false
        } else if esc_byte(s[1]).is_some() || s[1] == 0x5c || s[1] == 0x22 {
            git_quoted_wf(&s[2..])
        } else if (0x30..=0x33).contains(&s[1]) {
            s.len() >= 4 && (0x30..=0x37).contains(&s[2]) && (0x30..=0x37).contains(&s[3]) && git_quoted_wf(&s[4..])
        } else {
            false
        }
    }

    #[test]
    fn cex_T_unquote() {
        use std::os::unix::ffi::{OsStrExt, OsStringExt};
        let mut t = Topic::new("T.unquote");
        // sanity of the transcription on the specification's own examples
        t.check("lemma_unquote_octal_example", "c_unquote_spec(`\\303\\251`) == [0xc3, 0xa9]", json!({"quoted": "\\303\\251"}), json!([0xc3, 0xa9]), json!(c_unquote_spec(b"\\303\\251")));
        let git_ok = std::process::Command::new("git").arg("--version").output().map(|o| o.status.success()).unwrap_or(false);
        if !git_ok {
            t.finish("git is not available: only the transcription sanity case was run");
            return;
        }
        let tmp = tempfile::tempdir().unwrap();
        let root = tmp.path();
        let git = |args: &[&str]| std::process::Command::new("git").args(args).current_dir(root).env("GIT_CONFIG_GLOBAL", "/dev/null").env("GIT_CONFIG_SYSTEM", "/dev/null").output().unwrap();
        git(&["init", "-q"]);
        // odd names: every single byte 0x01..=0xff except `/` (one file each), and a few combinations
        let mut names: Vec<Vec<u8>> = Vec::new();
        for b in 1u8..=255 {
            if b == b'/' {
                continue;
            }
            names.push(vec![b'n', b, b'.', b'p', b'y']);
        }
        for extra in [
            "caf\u{e9}.py", "tab\tname.py", "new\nline.py", "quo\"te.py", "back\\slash.py", "sp ace.py", "\u{1f980}.rs", "a\u{7f}b", "mix \"\\\t\u{e9}\u{1}.txt", "\\303\\251 literal.py", "ends with backslash\\",
            "\"starts with quote", "d\u{e9}r/sub dir/f\"\\.py", "\u{ff}\u{100}\u{10348}", "0\\1\\2",
        ] {
            names.push(extra.as_bytes().to_vec());
        }
        names.push(vec![b'b', b'a', b'd', 0xff, 0xfe, b'.', b'p', b'y']); // not valid UTF-8
        names.push(vec![0xc3, b'.', b'p', b'y']); // truncated UTF-8 sequence
        for n in &names {
            let p = root.join(std::ffi::OsStr::from_bytes(n));
            std::fs::create_dir_all(p.parent().unwrap()).unwrap();
            std::fs::write(&p, b"x = 1\n").unwrap();
        }
        git(&["add", "-A"]);
        let out = git(&["diff", "--cached", "--no-color"]);
        let diff = out.stdout;
        // the `+++ ` header lines, in the order git printed them; match them to the real names through the spec
        let mut headers: Vec<Vec<u8>> = Vec::new();
        for line in diff.split(|b| *b == b'\n') {
            if let Some(rest) = line.strip_prefix(b"+++ ") {
                // git appends a raw TAB after a name that contains a space (quoted or not); a TAB that is
                // part of the name is always written as `\t` inside quotes
                let rest = if rest.ends_with(b"\t") { &rest[..rest.len() - 1] } else { rest };
                headers.push(rest.to_vec());
            }
        }
        t.check("git diff headers", "one +++ header per created file", json!({"files": names.len()}), json!(names.len()), json!(headers.len()));
        let mut unmatched: std::collections::BTreeSet<Vec<u8>> = names.iter().cloned().collect();
        for h in &headers {
            // strip_quotes_spec: `"` ... `"`
            let (inner_quoted, unquoted): (Option<&[u8]>, Vec<u8>) = if h.len() >= 2 && h[0] == b'"' && *h.last().unwrap() == b'"' {
                let inner = &h[1..h.len() - 1];
                (Some(inner), c_unquote_spec(inner))
            } else {
                (None, h.clone())
            };
            if let Some(inner) = inner_quoted {
                t.check(
                    "git_quoted_wf",
                    "what git writes between the quotes is accepted by git_quoted_wf (= git's unquote_c_style)",
                    json!({"header": String::from_utf8_lossy(h)}),
                    json!(true),
                    json!(git_quoted_wf(inner)),
                );
            }
            // the real name: the header is `b/<name>`
            let name = unquoted.strip_prefix(b"b/").map(|n| n.to_vec());
            let known = name.as_ref().is_some_and(|n| unmatched.remove(n));
            t.check(
                "c_unquote_spec",
                "c_unquote_spec(bytes between the quotes) == `b/` + the bytes of the real file name (an unquoted header is the name itself)",
                json!({"header": String::from_utf8_lossy(h), "header_bytes": h, "c_unquote_spec_gives_bytes": unquoted}),
                json!({"is_a_created_file": true}),
                json!({"is_a_created_file": known}),
            );
        }
        t.check("c_unquote_spec (coverage)", "every created file is named by exactly one header", json!({}), json!(0), json!(unmatched.len()));
        // the pipeline on the same diff: the keys of line_changes_from_diff are the real names, BYTE for byte
        // (unquote_bytes_spec + path_of_bytes: also for the names that are not valid UTF-8)
        let diff_text = String::from_utf8_lossy(&diff).to_string();
        if let Ok(map) = crate::diff_parser::line_changes_from_diff(&diff_text) {
            use std::os::unix::ffi::OsStrExt;
            let keys: std::collections::BTreeSet<Vec<u8>> = map.keys().map(|k| k.as_os_str().as_bytes().to_vec()).collect();
            for n in &names {
                // names with a newline / a leading quote / invalid UTF-8 etc. are exactly the interesting ones
                t.check("unquote_bytes_spec through line_changes_from_diff", "the key of the file is the path as git meant it, byte for byte", json!({"file_name_lossy": String::from_utf8_lossy(n), "file_name_bytes": n}), json!(true), json!(keys.contains(n)));
            }
        }
        t.finish("real `git diff --cached` headers of 271 files: one name for every byte 0x01..=0xff except `/`, 15 combinations (TAB, LF, quote, backslash, space, non-ASCII, DEL, literal escape look-alikes, leading quote, trailing backslash, sub-directories), 2 names that are not valid UTF-8; c_unquote_spec and git_quoted_wf transcribed from prelude/diff_unquote.rs; plus the keys of line_changes_from_diff on that diff");
    }

    // =========================================================================================
    // T.globset  (mainw_globset.rs)
    // =========================================================================================

    #[test]
    fn cex_T_globset() {
        use globset::{Glob, GlobSet, GlobSetBuilder};
        let mut t = Topic::new("T.globset");
        let patterns = ["**", "*.py", "src/**", "**/x.py", "setup.py", "a b/*", "*", "[ab].txt", "**/*.rs"];
        let paths = ["", "a", "a/b", "x.py", "src/x.py", "src/deep/y.rs", ".hidden", "/abs/path", "a b/c d", "\u{e9}/\u{e9}.py", "a\nb", "setup.py", "pkg/setup.py", "b.txt", "..", "./x.py", "src/"];
        // every subset of the 9 patterns
        for mask in 0..(1usize << patterns.len()) {
            let chosen: Vec<&str> = patterns.iter().enumerate().filter(|(i, _)| mask & (1 << i) != 0).map(|(_, p)| *p).collect();
            let globs: Vec<Glob> = chosen.iter().map(|p| Glob::new(p).unwrap()).collect();
            let mut b = GlobSetBuilder::new();
            for g in &globs {
                b.add(g.clone());
            }
            let set = b.build().unwrap();
            t.check("GlobSet::len / axiom_glob_set_build", "glob_count(set) == globs.len()", json!({"globs": chosen}), json!(globs.len()), json!(set.len()));
            t.check("GlobSet::is_empty", "r == (glob_count(set) == 0)", json!({"globs": chosen}), json!(globs.is_empty()), json!(set.is_empty()));
            if mask % 7 == 0 || chosen.len() <= 2 {
                for path in paths {
                    let any = globs.iter().any(|g| g.compile_matcher().is_match(path));
                    t.check(
                        "axiom_glob_set_build",
                        "glob_matches(set, path) <==> exists i: glob_match_one(globs[i], path)",
                        json!({"globs": chosen, "path": path}),
                        json!(any),
                        json!(set.is_match(path)),
                    );
                }
            }
            // GlobSet::new on the same globs builds the same set
            let set2 = GlobSet::new(globs.iter()).unwrap();
            t.check("GlobSet::new == GlobSetBuilder::build", "both are glob_set_build(globs)", json!({"globs": chosen}), json!(paths.iter().map(|p| set.is_match(p)).collect::<Vec<_>>()), json!(paths.iter().map(|p| set2.is_match(p)).collect::<Vec<_>>()));
        }
        let star = Glob::new("**").unwrap().compile_matcher();
        for path in paths.iter().chain(["a/b/c/d/e", "-", "*", "**", "a//b", "a/", "~"].iter()) {
            t.check("axiom_double_star_matches_all", "the pattern `**` matches every path", json!({"path": path}), json!(true), json!(star.is_match(path)));
        }
        for bad in ["[", "a/**b{", "{a,b", "\\"] {
            t.check("Glob::new", "Err <==> glob_of(pattern) is None (deterministic)", json!({"pattern": bad}), json!(Glob::new(bad).is_ok()), json!(Glob::new(bad).is_ok()));
        }
        t.finish("real globset crate: every subset of 9 patterns (len, is_empty, GlobSet::new vs builder), set-matches-iff-some-glob-matches on 17 paths (incl. empty, absolute, hidden, spaces, non-ASCII, newline, `..`, `./x`) for every 7th subset and all subsets of <=2 patterns; `**` against 24 paths");
    }

    // =========================================================================================
    // T.paths  (mainw_paths.rs, aff_maps.rs, tagnorm_listing.rs)
    // =========================================================================================

    #[test]
    fn cex_T_paths() {
        use std::path::{Path, PathBuf};
        let mut t = Topic::new("T.paths");
        let texts = ["", "a", "a/b", "/", "/a/b/c", "a//b", "a/./b", "a/../b", "./a", "a/", "a b/\u{e9}", "..", ".", "/a/", "b/b/b/x.py"];
        for s in texts {
            let p = PathBuf::from(s);
            let anc: Vec<&Path> = p.ancestors().collect();
            t.check(
                "axiom_ancestors_start_with_self",
                "ancestors_spec(p).len() >= 1 && ancestors_spec(p)[0] == p",
                json!({"path": s}),
                json!([true, true]),
                json!([!anc.is_empty(), anc.first().is_some_and(|a| a.to_path_buf() == p)]),
            );
            // every later ancestor is the parent of the one before (std doc: "if the parent method is used zero or more times")
            let chain_ok = anc.windows(2).all(|w| w[0].parent() == Some(w[1])) && anc.last().is_some_and(|l| l.parent().is_none());
            t.check("ancestors_spec (std doc)", "the path itself first, then its parent, and so on", json!({"path": s}), json!(true), json!(chain_ok));
            t.check("<PathBuf as Clone>::clone", "r == *p", json!({"path": s}), json!(true), json!(p.clone() == p));
            let d: &Path = &p;
            t.check("<PathBuf as Deref>::deref / Path::to_path_buf", "path_owned(deref(p)) == *p", json!({"path": s}), json!(true), json!(d.to_path_buf() == p));
            // verif_str_into_pathbuf: a function of the text (same text => equal paths), for &str, &String and String
            let (a, b, c): (PathBuf, PathBuf, PathBuf) = (s.into(), (&s.to_string()).into(), s.to_string().into());
            t.check("verif_str_into_pathbuf / path_of", "r == path_of(text): &str, &String and String give the same path", json!({"text": s}), json!(true), json!(a == b && b == c && a == PathBuf::from(s)));
            for other in texts {
                let q = PathBuf::from(other);
                // join / strip_prefix round trip is NOT assumed; only determinism (functions of their arguments)
                t.check("verif_path_join / path_join_path_spec", "a function of (base, rel)", json!({"base": s, "rel": other}), json!(p.join(&q)), json!(Path::new(s).join(Path::new(other))));
                let sp = p.strip_prefix(&q).ok().map(|x| x.to_path_buf());
                t.check("verif_path_strip_prefix", "Ok(x) ==> Some(path_owned(x)); Err ==> None (a function of (p, base))", json!({"p": s, "base": other}), json!(sp), json!(Path::new(s).strip_prefix(Path::new(other)).ok().map(|x| x.to_path_buf())));
            }
        }
        // axiom_dir_or_file_exists on a real disk
        let tmp = tempfile::tempdir().unwrap();
        std::fs::create_dir_all(tmp.path().join("d/.git")).unwrap();
        std::fs::write(tmp.path().join("d/f.txt"), "x").unwrap();
        for rel in ["d", "d/.git", "d/f.txt", "d/missing", "missing/x", "d/f.txt/under-a-file"] {
            let p = tmp.path().join(rel);
            t.check(
                "axiom_dir_or_file_exists",
                "is_dir_spec(p) ==> exists_spec(p); is_file_spec(p) ==> exists_spec(p)",
                json!({"path_under_temp_dir": rel}),
                json!(true),
                json!((!p.is_dir() || p.exists()) && (!p.is_file() || p.exists())),
            );
            let read = std::fs::read_to_string(&p);
            t.check("verif_fs_read_to_string", "Ok(s) / Err is a function of the path while the disk does not change", json!({"path_under_temp_dir": rel}), json!(read.as_ref().ok()), json!(std::fs::read_to_string(&p).ok()));
        }
        t.finish("15 path texts (empty, relative, absolute, `//`, `.`, `..`, trailing slash, spaces, non-ASCII): ancestors start with the path itself and follow `parent`, clone / deref / to_path_buf / into::<PathBuf>, join and strip_prefix over all pairs (determinism only - nothing more is assumed); is_dir / is_file imply exists and read_to_string on 6 real disk entries");
    }

    // =========================================================================================
    // T.regex  (prelude/regex.rs: the facts stated about Match / Captures)
    // =========================================================================================

    #[test]
    fn cex_T_regex() {
        let mut t = Topic::new("T.regex");
        let patterns = ["k=(?P<value>[^ ]+)", "a*", "(?P<value>x)?y", "^$", "\u{e9}+", "(a)|(b)", "[0-9]+$"];
        let hays = strings(&['a', 'x', 'y', '\u{e9}', ' ', '7'], 4);
        for p in patterns {
            let re = regex::Regex::new(p).unwrap();
            for h in &hays {
                let caps = re.captures(h);
                t.check("Regex::captures", "r is Some <==> re_is_match(re, hay)", json!({"pattern": p, "hay": h}), json!(re.is_match(h)), json!(caps.is_some()));
                if let Some(c) = caps {
                    let mut groups: Vec<regex::Match> = (0..c.len()).filter_map(|i| c.get(i)).collect();
                    if let Some(m) = c.name("value") {
                        groups.push(m);
                    }
                    for m in groups {
                        let r = m.range();
                        let ok = r.start == m.start()
                            && r.end == m.end()
                            && r.start <= r.end
                            && r.end <= h.len()
                            && m.len() == r.end - r.start
                            && m.is_empty() == (r.start == r.end)
                            && h.get(r.clone()) == Some(m.as_str());
                        t.check(
                            "Match::{range,start,end,len,is_empty,as_str}",
                            "range == start..end, start <= end, len == end - start, is_empty == (start == end), as_str is the text of the view (byte offsets into the hay)",
                            json!({"pattern": p, "hay": h, "group_range": [r.start, r.end]}),
                            json!(true),
                            json!(ok),
                        );
                    }
                }
            }
        }
        t.finish("real regex crate: 7 patterns x all strings of length <=4 over {a,x,y,U+00E9,space,7}: captures is Some iff is_match; every participating group's range / start / end / len / is_empty / as_str agree");
    }

    // =========================================================================================
    // T.unidiff  (diff_unidiff.rs, diff_lines_spec.rs: what is assumed about unidiff-parsed GIT diffs)
    // =========================================================================================

    #[derive(PartialEq, Clone, Copy, Debug)]
    enum Kind {
        Ctx,
        Add,
        Rem,
        Other,
    }

    /// kind(l): by `line_type`, in the order the code asks
    fn kind(l: &unidiff::Line) -> Kind {
        if l.line_type == "+" { Kind::Add } else if l.line_type == "-" { Kind::Rem } else if l.line_type == " " { Kind::Ctx } else { Kind::Other }
    }

    fn src_first(h: &unidiff::Hunk) -> i64 {
        if h.source_length == 0 { h.source_start as i64 + 1 } else { h.source_start as i64 }
    }

    fn tgt_first(h: &unidiff::Hunk) -> i64 {
        if h.target_length == 0 { h.target_start as i64 + 1 } else { h.target_start as i64 }
    }

    fn cs(h: &unidiff::Hunk, k: usize) -> i64 {
        if k == 0 { src_first(h) } else { cs(h, k - 1) + if matches!(kind(&h.lines()[k - 1]), Kind::Ctx | Kind::Rem) { 1 } else { 0 } }
    }

    fn ct(h: &unidiff::Hunk, k: usize) -> i64 {
        if k == 0 { tgt_first(h) } else { ct(h, k - 1) + if matches!(kind(&h.lines()[k - 1]), Kind::Ctx | Kind::Add) { 1 } else { 0 } }
    }

    /// ucs(h, k) of prelude/diff_parse_hunk.rs: unidiff's own old-file cursor, from `source_start`
    fn ucs(h: &unidiff::Hunk, k: usize) -> i64 {
        if k == 0 { h.source_start as i64 } else { ucs(h, k - 1) + if matches!(kind(&h.lines()[k - 1]), Kind::Ctx | Kind::Rem) { 1 } else { 0 } }
    }

    /// uct(h, k): unidiff's own new-file cursor, from `target_start`
    fn uct(h: &unidiff::Hunk, k: usize) -> i64 {
        if k == 0 { h.target_start as i64 } else { uct(h, k - 1) + if matches!(kind(&h.lines()[k - 1]), Kind::Ctx | Kind::Add) { 1 } else { 0 } }
    }

    /// line_parsed(h, k) of prelude/diff_parse_hunk.rs - the postcondition of `parse_hunk` proved in group
    /// unidiffparse and ASSUMED of every hunk `PatchSet::from_str` returns (`file_parsed`): a line carries
    /// exactly the numbers of its kind, taken from unidiff's running cursors
    fn line_parsed(h: &unidiff::Hunk, k: usize) -> bool {
        let l = &h.lines()[k];
        let (src, tgt) = (l.source_line_no.map(|n| n as i64), l.target_line_no.map(|n| n as i64));
        match kind(l) {
            Kind::Add => src.is_none() && tgt == Some(uct(h, k)),
            Kind::Rem => src == Some(ucs(h, k)) && tgt.is_none(),
            Kind::Ctx => src == Some(ucs(h, k)) && tgt == Some(uct(h, k)),
            Kind::Other => src.is_none() && tgt.is_none(),
        }
    }

    /// line_wf(h, k), returned as the list of violated clauses. A line of kind Other (git's
    /// `\ No newline at end of file` marker) is admitted in exactly one position, `marker_wf(ls, k)`:
    /// no line number of either file, directly after a removed line, not the last line of the hunk and
    /// directly before an added line (T-ext of prelude/diff_lines_spec.rs: marker lines only between
    /// the last removed and the first added line of a group; a trailing marker is dropped by unidiff's
    /// early break).
    fn line_wf_violations(h: &unidiff::Hunk, k: usize) -> Vec<&'static str> {
        let ls = h.lines();
        let mut v = Vec::new();
        let kd = kind(&ls[k]);
        if kd == Kind::Other {
            if !(ls[k].source_line_no.is_none() && ls[k].target_line_no.is_none()) {
                v.push("Other ==> marker_wf: ls[k].source_line_no is None && ls[k].target_line_no is None");
            }
            if !(k > 0 && kind(&ls[k - 1]) == Kind::Rem) {
                v.push("Other ==> marker_wf: k > 0 && kind(ls[k - 1]) == Kind::Rem");
            }
            if !(k + 1 < ls.len() && kind(&ls[k + 1]) == Kind::Add) {
                v.push("Other ==> marker_wf: k + 1 < ls.len() && kind(ls[k + 1]) == Kind::Add");
            }
        }
        if (kd == Kind::Add || kd == Kind::Ctx) && ls[k].target_line_no.map(|n| n as i64) != Some(ct(h, k)) {
            v.push("Add/Ctx ==> target_line_no == Some(ct(h, k))");
        }
        if (kd == Kind::Rem || kd == Kind::Ctx) && ls[k].source_line_no.map(|n| n as i64) != Some(cs(h, k)) {
            v.push("Rem/Ctx ==> source_line_no == Some(cs(h, k))");
        }
        if k > 0 && kd == Kind::Rem && kind(&ls[k - 1]) == Kind::Add {
            v.push("k > 0 && Rem ==> kind(ls[k - 1]) != Add");
        }
        v
    }

    /// number of lines of kind Other (marker lines) that unidiff kept inside the hunks of the file
    fn marker_lines_in_hunks(f: &unidiff::PatchedFile) -> usize {
        f.hunks().iter().map(|h| h.lines().iter().filter(|l| kind(l) == Kind::Other).count()).sum()
    }

    fn file_wf_violations(f: &unidiff::PatchedFile) -> Vec<String> {
        let mut v = Vec::new();
        let hs = f.hunks();
        for (hi, h) in hs.iter().enumerate() {
            let n = h.lines().len();
            for k in 0..n {
                for viol in line_wf_violations(h, k) {
                    v.push(format!("hunk {hi} line {k}: line_wf: {viol}"));
                }
                // file_parsed / hunk_parsed / line_parsed (assumed of `PatchSet::from_str`'s result)
                if !line_parsed(h, k) {
                    v.push(format!("hunk {hi} line {k}: line_parsed (numbers of its kind from unidiff's cursors ucs/uct)"));
                }
                // file_numbered / line_numbered
                let l = &h.lines()[k];
                if (kind(l) == Kind::Add && l.target_line_no.is_none()) || (kind(l) == Kind::Rem && l.source_line_no.is_none()) {
                    v.push(format!("hunk {hi} line {k}: line_numbered"));
                }
                // X.is_added / is_removed / is_context
                if l.is_added() != (l.line_type == "+") || l.is_removed() != (l.line_type == "-") || l.is_context() != (l.line_type == " ") {
                    v.push(format!("hunk {hi} line {k}: Line::is_added/is_removed/is_context"));
                }
            }
            if cs(h, n) != src_first(h) + h.source_length as i64 {
                v.push(format!("hunk {hi}: hunk_wf: cs(h, len) == src_first(h) + h.source_length"));
            }
            if ct(h, n) != tgt_first(h) + h.target_length as i64 {
                v.push(format!("hunk {hi}: hunk_wf: ct(h, len) == tgt_first(h) + h.target_length"));
            }
            if hi + 1 < hs.len() && !(tgt_first(&hs[hi + 1]) > ct(h, n)) {
                v.push(format!("hunk {hi}: hunk_gap: tgt_first(next) > ct(h, len)"));
            }
        }
        // X.is_removed_file == removed_file
        let removed = hs.len() == 1 && hs[0].target_start == 0 && hs[0].target_length == 0;
        if f.is_removed_file() != removed {
            v.push("is_removed_file == removed_file".to_string());
        }
        v
    }

    #[test]
    fn cex_T_unidiff() {
        use std::str::FromStr;
        let mut t = Topic::new("T.unidiff");
        let git_ok = std::process::Command::new("git").arg("--version").output().map(|o| o.status.success()).unwrap_or(false);
        if !git_ok {
            t.finish("git is not available: nothing was run");
            return;
        }
        let tmp = tempfile::tempdir().unwrap();
        let (old_p, new_p) = (tmp.path().join("old.txt"), tmp.path().join("new.txt"));
        // marker lines (`\ No newline at end of file`) in the diff text / kept inside a parsed hunk
        let (mut markers_in_text, mut markers_in_hunks) = (0usize, 0usize);
        let mut run = |t: &mut Topic, old: &str, new: &str, context: usize, spec: &str| {
            std::fs::write(&old_p, old).unwrap();
            std::fs::write(&new_p, new).unwrap();
            let out = std::process::Command::new("git")
                .args(["diff", "--no-index", "--no-color", &format!("-U{context}"), "old.txt", "new.txt"])
                .current_dir(tmp.path())
                .env("GIT_CONFIG_GLOBAL", "/dev/null")
                .env("GIT_CONFIG_SYSTEM", "/dev/null")
                .output()
                .unwrap();
            let diff = String::from_utf8_lossy(&out.stdout).to_string();
            if diff.is_empty() {
                return;
            }
            let input = json!({"old_file_text": old, "new_file_text": new, "git_diff": diff, "context_lines": context});
            match unidiff::PatchSet::from_str(&diff) {
                Err(e) => t.check(spec, "a git diff parses", input, json!("parsed"), json!(e.to_string())),
                Ok(ps) => {
                    markers_in_text += diff.lines().filter(|l| l.starts_with('\\')).count();
                    markers_in_hunks += ps.files().iter().map(marker_lines_in_hunks).sum::<usize>();
                    let violations: Vec<String> = ps.files().iter().flat_map(file_wf_violations).collect();
                    t.check(
                        spec,
                        "file_parsed(f) && file_numbered(f) && file_wf(f): every line carries exactly the numbers of its kind from unidiff's cursors (added: target only, removed: source only, context: both, other: none); every +/-/context line is numbered by the running cursors cs/ct (zero-length side names the line before), a line of another kind (the `\\ No newline at end of file` marker) has no line number, directly follows a removed line and is directly followed by an added line, removed lines precede added lines in a run, header lengths = line counts, at least one unchanged line between hunks",
                        input,
                        json!([] as [String; 0]),
                        json!(violations),
                    );
                }
            }
        };
        // every edit script: delete any subset of the old lines, insert 0..=1 lines into any gap
        for n in 0..=4usize {
            for del_mask in 0..(1usize << n) {
                for ins_mask in 0..(1usize << (n + 1)) {
                    let mut old = String::new();
                    let mut new = String::new();
                    for g in 0..=n {
                        if ins_mask & (1 << g) != 0 {
                            new.push_str(&format!("new{g}\n"));
                        }
                        if g < n {
                            old.push_str(&format!("line{g}\n"));
                            if del_mask & (1 << g) == 0 {
                                new.push_str(&format!("line{g}\n"));
                            }
                        }
                    }
                    for context in [0usize, 1, 3] {
                        if n == 4 && context == 3 {
                            continue;
                        }
                        run(&mut t, &old, &new, context, "file_wf / file_numbered on `git diff` (files end with a newline)");
                    }
                }
            }
        }
        // larger files: several hunks
        let old: String = (0..12).map(|i| format!("line{i}\n")).collect();
        for (dels, inss) in [(vec![0usize], vec![11usize]), (vec![2, 3, 9], vec![6]), (vec![5], vec![5]), (vec![0, 1, 2], vec![]), (vec![], vec![0, 4, 8, 12]), (vec![11], vec![0])] {
            let mut new = String::new();
            for g in 0..=12usize {
                if inss.contains(&g) {
                    new.push_str(&format!("new{g}\n"));
                }
                if g < 12 && !dels.contains(&g) {
                    new.push_str(&format!("line{g}\n"));
                }
            }
            for context in [0usize, 1, 2, 3] {
                run(&mut t, &old, &new, context, "file_wf / file_numbered on `git diff` (files end with a newline)");
            }
        }
        // files WITHOUT a final newline: git prints `\ No newline at end of file`
        const NO_EOL_SPEC: &str = "file_wf / file_numbered on `git diff` when a file has NO final newline (marker lines)";
        for (old, new) in [("a\nb", "a\nc"), ("a\nb\n", "a\nb"), ("a\nb", "a\nb\n"), ("a\nb", "a\nb\nc"), ("x", "x\ny\n"), ("a\nb", "c"), ("a\nb\nc", "a\nx\ny\nz"), ("a\nb\nc", "a")] {
            for context in [0usize, 3] {
                run(&mut t, old, new, context, NO_EOL_SPEC);
            }
        }
        // ... systematically: every edit script on files of 1..=3 lines, the old file, the new file or
        // both lacking the final newline
        for n in 1..=3usize {
            for del_mask in 0..(1usize << n) {
                for ins_mask in 0..(1usize << (n + 1)) {
                    let mut old = String::new();
                    let mut new = String::new();
                    for g in 0..=n {
                        if ins_mask & (1 << g) != 0 {
                            new.push_str(&format!("new{g}\n"));
                        }
                        if g < n {
                            old.push_str(&format!("line{g}\n"));
                            if del_mask & (1 << g) == 0 {
                                new.push_str(&format!("line{g}\n"));
                            }
                        }
                    }
                    for (old_bare, new_bare) in [(true, false), (false, true), (true, true)] {
                        if new_bare && new.is_empty() {
                            continue;
                        }
                        let old_text = if old_bare { old.trim_end_matches('\n').to_string() } else { old.clone() };
                        let new_text = if new_bare { new.trim_end_matches('\n').to_string() } else { new.clone() };
                        for context in [0usize, 1, 3] {
                            run(&mut t, &old_text, &new_text, context, NO_EOL_SPEC);
                        }
                    }
                }
            }
        }
        // ... and a 12-line old file without a final newline whose tail is deleted / re-written (several hunks)
        let old_bare: String = (0..12).map(|i| if i < 11 { format!("line{i}\n") } else { format!("line{i}") }).collect();
        for (dels, tail) in [(vec![11usize], "x\n"), (vec![10, 11], "x\ny\n"), (vec![2, 11], "x"), (vec![0, 5, 9, 10, 11], "x\ny\nz"), (vec![4], "")] {
            let mut new = String::new();
            for g in 0..12usize {
                if !dels.contains(&g) {
                    new.push_str(&format!("line{g}\n"));
                }
            }
            if !dels.contains(&11) {
                new.pop();
            }
            new.push_str(tail);
            for context in [0usize, 1, 2, 3] {
                run(&mut t, &old_bare, &new, context, NO_EOL_SPEC);
            }
        }
        drop(run);
        if t.deviations.is_empty() && (markers_in_hunks == 0 || markers_in_hunks >= markers_in_text) {
            t.check(
                "harness consistency",
                "the enumeration contains marker lines that unidiff keeps inside a hunk and marker lines that it drops",
                json!({"marker_lines_in_diff_text": markers_in_text, "marker_lines_kept_in_hunks": markers_in_hunks}),
                json!(true),
                json!(false),
            );
        }
        t.finish(&format!("REAL `git diff --no-index -U0/-U1/-U3` of every edit script (delete any subset, insert 0..=1 line per gap) on files of 0..=4 lines, 6 multi-hunk edits of a 12-line file at -U0..-U3; files WITHOUT a final newline (old side, new side, both): every such edit script on files of 1..=3 lines at -U0/-U1/-U3, 8 hand-picked pairs, 5 edits of a 12-line file at -U0..-U3 - {markers_in_text} `\\ No newline at end of file` lines in the diff texts, {markers_in_hunks} of them kept inside a parsed hunk (each must satisfy marker_wf), the others dropped by unidiff's early break; parsed with the real unidiff crate; line_wf (incl. marker_wf) / hunk_wf / hunk_gap / file_numbered / removed_file transcribed from prelude/diff_lines_spec.rs and diff_unidiff.rs, line_parsed / ucs / uct from prelude/diff_parse_hunk.rs"));
    }
}
