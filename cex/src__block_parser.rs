
// ---------------------------------------------------------------------------------------------
// verif_cex: small-scope exhaustive differential harnesses for src/block_parser.rs
// units: P1 P2 P3                  (see /verif/cex/README.md, /verif/cex/MAP.json)
// This text is appended verbatim to a scratch copy of src/block_parser.rs.
// ---------------------------------------------------------------------------------------------
#[cfg(test)]
#[allow(unused_imports, dead_code, clippy::all)]
mod verif_cex {
    use super::*;
    use serde_json::{Value, json};
    use std::ffi::OsString;

    fn cex_fail(unit: &str, what: &str, input: Value, expected: Value, observed: Value) -> ! {
        println!(
            "VERIF-CEX {}",
            json!({"unit": unit, "what": what, "input": input, "expected": expected, "observed": observed})
        );
        panic!("counterexample for unit {unit}: {what}");
    }

    fn cex_none(unit: &str, cases: u64, bound: &str) {
        println!(
            "VERIF-CEX-NONE {}",
            json!({"unit": unit, "cases": cases, "bound": bound})
        );
    }

    // ----------------------------------------------------------------------------------------
    // Source generator with ground truth by construction
    // ----------------------------------------------------------------------------------------

    #[derive(Clone, Copy, Debug, PartialEq)]
    enum Lang {
        Rust,
        Python,
    }

    #[derive(Clone, Copy, Debug, PartialEq)]
    enum Style {
        /// `// a b c` / `# a b c` : all tags of the comment on one line
        Line,
        /// `/* a b c */`
        BlockOneLine,
        /// `/* head` NL `   tag` NL ... ` */` : each tag on its own line of a multi-line comment
        BlockMultiLine,
        /// like BlockMultiLine with decorative ` * ` line prefixes
        BlockStars,
    }

    #[derive(Clone, Copy, Debug, PartialEq)]
    enum Between {
        Newline,
        CodeLine,
        /// code holding a string literal with a decoy tag
        DecoyLine,
        /// nothing at all between two block comments / code on the same line
        SameLine,
    }

    #[derive(Clone, Copy, Debug, PartialEq)]
    enum Lead {
        None,
        Indent,
        /// code before the comment on the same line
        Code,
    }

    #[derive(Clone, Debug)]
    struct Ev {
        is_start: bool,
        attrs: Vec<(String, String)>,
        /// byte offset of `<` and (start tags) of the closing `>`
        lt: usize,
        gt: usize,
        comment: usize,
    }

    #[derive(Clone, Debug)]
    struct Generated {
        lang: Lang,
        text: String,
        events: Vec<Ev>,
        /// byte ranges of the comments, in source order
        comments: Vec<(usize, usize)>,
    }

    /// `groups[k]` = number of consecutive events placed in comment k.
    fn generate(lang: Lang, kinds: &[bool], groups: &[usize], style: Style, between: Between, lead: Lead) -> Generated {
        let mut text = String::new();
        let mut events = Vec::new();
        let mut comments = Vec::new();
        if lang == Lang::Rust {
            text.push_str("fn first() {}\n");
        } else {
            text.push_str("import os\n");
        }
        let mut next = 0usize;
        for (c, size) in groups.iter().enumerate() {
            match lead {
                Lead::None => {}
                Lead::Indent => text.push_str("    "),
                Lead::Code => text.push_str(if lang == Lang::Rust { "const A: &str = \"\u{e9}\"; " } else { "a = \"\u{e9}\"  " }),
            }
            let start = text.len();
            let (open, close) = match (lang, style) {
                (Lang::Python, _) => ("# ", ""),
                (_, Style::Line) => ("// ", ""),
                (_, Style::BlockOneLine) => ("/* ", " */"),
                (_, Style::BlockMultiLine) => ("/* head\n", " */"),
                (_, Style::BlockStars) => ("/**\n", " */"),
            };
            text.push_str(open);
            for k in 0..*size {
                let multi = matches!(style, Style::BlockMultiLine | Style::BlockStars) && lang == Lang::Rust;
                if multi {
                    text.push_str(if style == Style::BlockStars { " * " } else { "   " });
                } else if k > 0 {
                    text.push_str(" m\u{e9}d ");
                }
                let i = next;
                next += 1;
                if kinds[i] {
                    let mut attrs = vec![("name".to_string(), format!("s{i}"))];
                    if i % 2 == 1 {
                        attrs.push(("k".to_string(), "v>w".to_string()));
                    }
                    let lt = text.len();
                    text.push_str("<block");
                    for (a, v) in &attrs {
                        text.push_str(&format!(" {a}=\"{v}\""));
                    }
                    text.push('>');
                    events.push(Ev { is_start: true, attrs, lt, gt: text.len() - 1, comment: c });
                } else {
                    let lt = text.len();
                    text.push_str("</block>");
                    events.push(Ev { is_start: false, attrs: vec![], lt, gt: text.len() - 1, comment: c });
                }
                if multi {
                    text.push_str(" tail\n");
                }
            }
            text.push_str(close);
            comments.push((start, text.len()));
            let is_block = lang == Lang::Rust && style != Style::Line;
            match between {
                Between::Newline => text.push('\n'),
                Between::CodeLine => text.push_str(if lang == Lang::Rust { "\nfn code() {}\n" } else { "\nx = 1\n" }),
                Between::DecoyLine => text.push_str(if lang == Lang::Rust {
                    "\nconst D: &str = \"<block name='decoy'> </block> <block>\";\n"
                } else {
                    "\nd = \"<block name='decoy'> </block> <block>\"\n"
                }),
                Between::SameLine => {
                    if is_block {
                        if c % 2 == 0 {
                            text.push_str(" const B: u8 = 1; ");
                        }
                    } else {
                        text.push('\n');
                    }
                }
            }
        }
        text.push_str(if lang == Lang::Rust { "\nfn last() {}\n" } else { "\ny = 2\n" });
        Generated { lang, text, events, comments }
    }

    fn line_col(text: &str, byte: usize) -> (usize, usize) {
        let before = &text[..byte];
        let line = before.matches('\n').count() + 1;
        let line_start = before.rfind('\n').map_or(0, |p| p + 1);
        (line, byte - line_start + 1)
    }

    // ----------------------------------------------------------------------------------------
    // Oracle (C03 / C12, DESIGN 6 P1-P3)
    // ----------------------------------------------------------------------------------------

    /// The tag sequence is well nested iff no prefix closes more than it opens and the totals agree.
    fn balanced(kinds: &[bool]) -> bool {
        let mut depth = 0i64;
        for k in kinds {
            depth += if *k { 1 } else { -1 };
            if depth < 0 {
                return false;
            }
        }
        depth == 0
    }

    /// Innermost-first pairing, stated declaratively: the partner of the end tag at j is the last
    /// start tag i < j such that the tags strictly between i and j are themselves well nested.
    fn partner(kinds: &[bool], j: usize) -> Option<usize> {
        (0..j).rev().find(|i| kinds[*i] && balanced(&kinds[i + 1..j]))
    }

    #[derive(Debug, Clone, PartialEq)]
    struct ExpBlock {
        name: String,
        attrs: Vec<(String, String)>,
        tag_start: (usize, usize),
        tag_end: (usize, usize),
        same_comment: bool,
        content_bytes: (usize, usize),
        content_start: (usize, usize),
        content_end: (usize, usize),
    }

    /// The same file with CRLF line breaks (every `\n` becomes `\r\n`); all recorded byte offsets move with it.
    /// Lines and byte columns within a line are unchanged: a `\r` only ever precedes a `\n`.
    /// A LINE comment (`// ..`, `# ..`) runs to the line break in both grammars, and the grammars' "any character
    /// but newline" includes the `\r`: the comment node of a CRLF file ends after the `\r` (observed on the real
    /// crates; which bytes belong to a comment is the grammar's decision, T-ext). Block comments end at `*/`.
    fn to_crlf(g: &Generated, line_comments: bool) -> Generated {
        let map = |off: usize| off + g.text[..off].matches('\n').count();
        let text = g.text.replace('\n', "\r\n");
        let end_of = |b: usize| {
            let e = map(b);
            if line_comments && text.as_bytes().get(e) == Some(&b'\r') { e + 1 } else { e }
        };
        Generated {
            lang: g.lang,
            events: g.events.iter().map(|e| Ev { is_start: e.is_start, attrs: e.attrs.clone(), lt: map(e.lt), gt: map(e.gt), comment: e.comment }).collect(),
            comments: g.comments.iter().map(|(a, b)| (map(*a), end_of(*b))).collect(),
            text,
        }
    }

    fn expected_blocks(g: &Generated, kinds: &[bool]) -> Option<Vec<ExpBlock>> {
        if !balanced(kinds) {
            return None;
        }
        let mut blocks = Vec::new();
        for j in 0..kinds.len() {
            if kinds[j] {
                continue;
            }
            let i = partner(kinds, j).unwrap();
            let (s, e) = (&g.events[i], &g.events[j]);
            let same = s.comment == e.comment;
            let (cs, ce) = (g.comments[s.comment].1, g.comments[e.comment].0);
            blocks.push(ExpBlock {
                name: s.attrs[0].1.clone(),
                attrs: s.attrs.clone(),
                tag_start: line_col(&g.text, s.lt),
                tag_end: line_col(&g.text, s.gt),
                same_comment: same,
                content_bytes: (cs, ce),
                content_start: line_col(&g.text, cs),
                content_end: line_col(&g.text, ce),
            });
        }
        // reported in source order of their start tags
        blocks.sort_by_key(|b| (b.tag_start.0, b.tag_start.1));
        Some(blocks)
    }

    fn block_json(b: &Block, text: &str) -> Value {
        let mut attrs: Vec<(&String, &String)> = b.attributes.iter().collect();
        attrs.sort();
        json!({
            "attributes": attrs,
            "start_tag": {"from": [b.start_tag_position_range.start().line, b.start_tag_position_range.start().character], "to": [b.start_tag_position_range.end().line, b.start_tag_position_range.end().character]},
            "content_bytes_range": [b.content_bytes_range.start, b.content_bytes_range.end],
            "content_text": text.get(b.content_bytes_range.clone()),
            "content_position_range": {"from": [b.content_position_range.start.line, b.content_position_range.start.character], "to": [b.content_position_range.end.line, b.content_position_range.end.character]},
        })
    }

    fn exp_json(b: &ExpBlock, text: &str) -> Value {
        json!({
            "attributes": b.attrs,
            "start_tag": {"from": [b.tag_start.0, b.tag_start.1], "to": [b.tag_end.0, b.tag_end.1]},
            "content_text": if b.same_comment { "" } else { &text[b.content_bytes.0..b.content_bytes.1] },
            "content_position_range": if b.same_comment { json!("not checked (both tags in one comment)") } else { json!({"from": [b.content_start.0, b.content_start.1], "to": [b.content_end.0, b.content_end.1]}) },
        })
    }

    #[derive(PartialEq, Clone, Copy)]
    enum Unit {
        P1,
        P2,
        P3,
    }

    /// Runs one generated source through the real grammar and compares with the oracle.
    /// `unit` selects which aspect is compared (P1: Ok/Err, number, pairing = names + attributes in
    /// source order; P2: start-tag positions; P3: content byte range / text / positions).
    fn check(
        unit: Unit,
        parsers: &std::collections::HashMap<OsString, crate::language_parsers::LanguageParser>,
        g: &Generated,
        kinds: &[bool],
        describe: &Value,
        cases: &mut u64,
    ) {
        let unit_name = match unit {
            Unit::P1 => "P1",
            Unit::P2 => "P2",
            Unit::P3 => "P3",
        };
        let ext = if g.lang == Lang::Rust { "rs" } else { "py" };
        let parser = parsers.get(&OsString::from(ext)).unwrap();
        let observed = parser.borrow_mut().parse(&g.text);
        let expected = expected_blocks(g, kinds);
        *cases += 1;
        let input = json!({"file_name": format!("f.{ext}"), "file_text": g.text, "shape": describe});
        match (&expected, &observed) {
            (None, Err(_)) => {}
            (None, Ok(blocks)) => {
                if unit == Unit::P1 {
                    cex_fail(
                        "P1",
                        "unbalanced block tags (a start tag never closed or an end tag with no open block) must be an error",
                        input,
                        json!({"error": "any"}),
                        json!({"blocks": blocks.iter().map(|b| block_json(b, &g.text)).collect::<Vec<_>>()}),
                    );
                }
            }
            (Some(exp), Err(e)) => {
                if unit == Unit::P1 {
                    cex_fail(
                        "P1",
                        "well-nested block tags inside comments must parse",
                        input,
                        json!({"blocks": exp.iter().map(|b| exp_json(b, &g.text)).collect::<Vec<_>>()}),
                        json!({"error": e.to_string()}),
                    );
                }
            }
            (Some(exp), Ok(blocks)) => {
                let fail = |what: &str| -> ! {
                    cex_fail(
                        unit_name,
                        what,
                        input.clone(),
                        json!({"blocks": exp.iter().map(|b| exp_json(b, &g.text)).collect::<Vec<_>>()}),
                        json!({"blocks": blocks.iter().map(|b| block_json(b, &g.text)).collect::<Vec<_>>()}),
                    )
                };
                if exp.len() != blocks.len() {
                    if unit == Unit::P1 {
                        fail("one block per start tag written in a comment - never one from a string literal or from code");
                    }
                    return;
                }
                for (e, b) in exp.iter().zip(blocks) {
                    let mut attrs: Vec<(String, String)> = b.attributes.iter().map(|(k, v)| (k.clone(), v.clone())).collect();
                    attrs.sort();
                    let mut eattrs = e.attrs.clone();
                    eattrs.sort();
                    match unit {
                        Unit::P1 => {
                            // pairing: the k-th reported block is the k-th start tag in source order
                            // with its own attributes, and ends at its innermost-first partner (seen
                            // through the content end, which is where the partner's comment begins).
                            if attrs != eattrs {
                                fail("blocks are reported in source order of their start tags, each with the attributes written in its own tag");
                            }
                            if !e.same_comment && b.content_bytes_range.end != e.content_bytes.1 {
                                fail("tags pair innermost-first: a block ends at the end tag that closes it, not at another one");
                            }
                        }
                        Unit::P2 => {
                            let s = b.start_tag_position_range.start();
                            let t = b.start_tag_position_range.end();
                            if (s.line, s.character) != e.tag_start || (t.line, t.character) != e.tag_end {
                                fail("the start tag's position range must point at its `<` and its `>` in the source (1-based line, 1-based byte column)");
                            }
                            // independent re-check against the bytes of the file
                            let lines: Vec<&str> = g.text.split('\n').collect();
                            let lt = lines.get(s.line - 1).and_then(|l| l.as_bytes().get(s.character - 1));
                            let gt = lines.get(t.line - 1).and_then(|l| l.as_bytes().get(t.character - 1));
                            if lt != Some(&b'<') || gt != Some(&b'>') {
                                fail("the bytes at the reported start-tag positions must be `<` and `>`");
                            }
                        }
                        Unit::P3 => {
                            if e.same_comment {
                                if g.text.get(b.content_bytes_range.clone()) != Some("") {
                                    fail("a block whose tags share one comment has empty content");
                                }
                            } else {
                                if (b.content_bytes_range.start, b.content_bytes_range.end) != e.content_bytes {
                                    fail("content is exactly the source text between the end of the comment holding the start tag and the start of the comment holding the end tag");
                                }
                                let (cs, ce) = (&b.content_position_range.start, &b.content_position_range.end);
                                if (cs.line, cs.character) != e.content_start || (ce.line, ce.character) != e.content_end {
                                    fail("the content position range must run from the end of the start tag's comment to the start of the end tag's comment");
                                }
                            }
                        }
                    }
                }
            }
        }
    }

    fn groupings(n: usize) -> Vec<Vec<usize>> {
        if n == 0 {
            return vec![vec![]];
        }
        let mut out = Vec::new();
        for mask in 0..(1usize << (n - 1)) {
            let mut groups = vec![1usize];
            for i in 0..n - 1 {
                if mask & (1 << i) != 0 {
                    *groups.last_mut().unwrap() += 1;
                } else {
                    groups.push(1);
                }
            }
            out.push(groups);
        }
        out
    }

    fn run(unit: Unit) -> (u64, &'static str) {
        let parsers = crate::language_parsers::language_parsers().unwrap();
        let mut cases = 0u64;
        let rust_styles = [Style::Line, Style::BlockOneLine, Style::BlockMultiLine, Style::BlockStars];
        let betweens = [Between::Newline, Between::CodeLine, Between::DecoyLine, Between::SameLine];
        let leads = [Lead::None, Lead::Indent, Lead::Code];
        for n in 0..=6usize {
            for mask in 0..(1usize << n) {
                let kinds: Vec<bool> = (0..n).map(|i| mask & (1 << i) != 0).collect();
                for groups in groupings(n) {
                    for (lang, styles) in [(Lang::Rust, &rust_styles[..]), (Lang::Python, &rust_styles[..1])] {
                        for style in styles {
                            for between in betweens {
                                for lead in leads {
                                    // thin out the two largest layers: full product up to 4 tags
                                    if n >= 5 && !(between == Between::SameLine || (between == Between::DecoyLine && lead == Lead::Indent)) {
                                        continue;
                                    }
                                    if n == 6 && (lead != Lead::None || *style == Style::BlockStars) {
                                        continue;
                                    }
                                    let g = generate(lang, &kinds, &groups, *style, between, lead);
                                    let describe = json!({
                                        "language": format!("{lang:?}"),
                                        "tags_in_source_order": kinds.iter().map(|k| if *k { "start" } else { "end" }).collect::<Vec<_>>(),
                                        "tags_per_comment": groups,
                                        "comment_style": format!("{style:?}"),
                                        "between_comments": format!("{between:?}"),
                                        "before_comment": format!("{lead:?}"),
                                    });
                                    check(unit, &parsers, &g, &kinds, &describe, &mut cases);
                                    // the same file with CRLF line breaks (up to 4 tags)
                                    if n <= 4 {
                                        let mut describe_crlf = describe.clone();
                                        describe_crlf["line_breaks"] = json!("CRLF");
                                        check(unit, &parsers, &to_crlf(&g, *style == Style::Line), &kinds, &describe_crlf, &mut cases);
                                    }
                                }
                            }
                        }
                    }
                }
            }
        }
        (
            cases,
            "every sequence of 0..=6 start/end tags (balanced or not) x every way of distributing them over comments (several tags per comment) x {rust: line, one-line block, multi-line block, star-decorated block; python: line} x {newline, code, string literal with decoy tags, same line} between comments x {no, indent, code} before the comment; thinned for 5 and 6 tags; every file of up to 4 tags also with CRLF line breaks",
        )
    }

    #[test]
    fn cex_P1() {
        let (cases, bound) = run(Unit::P1);
        cex_none("P1", cases, bound);
    }

    #[test]
    fn cex_P2() {
        let (cases, bound) = run(Unit::P2);
        cex_none("P2", cases, bound);
    }

    #[test]
    fn cex_P3() {
        let (cases, bound) = run(Unit::P3);
        cex_none("P3", cases, bound);
    }
}
