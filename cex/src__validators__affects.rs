
// ---------------------------------------------------------------------------------------------
// verif_cex: small-scope exhaustive differential harnesses for src/validators/affects.rs
// units: V6 V6p                    (see /verif/cex/README.md, /verif/cex/MAP.json)
// This text is appended verbatim to a scratch copy of src/validators/affects.rs.
// ---------------------------------------------------------------------------------------------
#[cfg(test)]
#[allow(unused_imports, dead_code, clippy::all)]
mod verif_cex {
    use super::*;
    use crate::blocks::{Block, BlockWithContext, FileBlocks};
    use crate::validators::{ValidationContext, ValidatorSync, Violation};
    use serde_json::{Value, json};
    use std::collections::HashMap as CexHashMap;
    use std::ffi::OsString;
    use std::path::PathBuf as CexPathBuf;
    use std::sync::Arc as CexArc;

    fn cex_fail(unit: &str, what: &str, input: Value, expected: Value, observed: Value) -> ! {
        println!(
            "VERIF-CEX {}",
            json!({"unit": unit, "what": what, "input": input, "expected": expected, "observed": observed})
        );
        panic!("counterexample for unit {unit}: {what}");
    }

    fn cex_none(unit: &str, cases: u64, bound: &str) {
        println!(
            "VERIF-CEX-NONE {}",
            json!({"unit": unit, "cases": cases, "bound": bound})
        );
    }

    struct Lcg(u64);
    impl Lcg {
        fn from_env() -> Self {
            let seed = std::env::var("VERIF_SEED")
                .ok()
                .and_then(|s| s.parse::<u64>().ok())
                .unwrap_or(1);
            Lcg(seed.wrapping_mul(0x9E3779B97F4A7C15).wrapping_add(0x1234567))
        }
        fn next(&mut self, n: u64) -> u64 {
            self.0 = self.0.wrapping_mul(6364136223846793005).wrapping_add(1442695040888963407);
            (self.0 >> 33) % n
        }
    }

    /// A generated source file with one block; `line_offsets[i]` is the byte offset in `text` at
    /// which the i-th generated content line starts (ground truth by construction).
    struct Built {
        file_name: &'static str,
        text: String,
        line_offsets: Vec<usize>,
        /// byte offsets of the start tag's `<` and `>` in `text`
        tag_lt: usize,
        tag_gt: usize,
    }

    const LAYOUTS: usize = 6;

    fn layout_name(layout: usize) -> &'static str {
        [
            "python: `# <block ..>` / lines / `# </block>`",
            "rust: start tag's block comment continues for two lines after the tag, then lines, `// </block>`",
            "rust: one-line block comment, content starts on the tag's own line, `/* </block> */` on its own line",
            "rust: code before, indented `// <block ..>`, end tag `/* </block> */` shares the last content line",
            "rust: tag on the last line of a three-line block comment, content starts on that line",
            "rust: multi-line start tag (attributes on separate lines) inside a block comment, then lines",
        ][layout]
    }

    /// Builds a file holding one block with the given start-tag attribute text and content lines.
    fn build(layout: usize, attrs: &str, lines: &[&str]) -> Built {
        let sp = if attrs.is_empty() { "" } else { " " };
        let (file_name, head, first_sep, tail): (&'static str, String, &str, &str) = match layout {
            0 => ("f.py", format!("# <block{sp}{attrs}>"), "\n", "\n# </block>\n"),
            1 => ("f.rs", format!("/* <block{sp}{attrs}>\n   note\n   more */"), "\n", "\n// </block>\n"),
            2 => ("f.rs", format!("/* <block{sp}{attrs}> */"), " ", "\n/* </block> */\n"),
            3 => ("f.rs", format!("fn x() {{}}\n\n    // <block{sp}{attrs}>"), "\n", " /* </block> */\nfn y() {}\n"),
            4 => ("f.rs", format!("/*\n note\n  <block{sp}{attrs}> */"), " ", "\n// </block>\n"),
            5 => ("f.rs", format!("  /* <block\n{sp}{}\n> */", attrs.replace("\" ", "\"\n   ")), "\n", "\n  // </block>\n"),
            _ => unreachable!(),
        };
        let tag_lt = head.find("<block").unwrap();
        let tag_gt = head.rfind('>').unwrap();
        let mut text = head;
        let mut line_offsets = Vec::new();
        for (i, l) in lines.iter().enumerate() {
            text.push_str(if i == 0 { first_sep } else { "\n" });
            line_offsets.push(text.len());
            text.push_str(l);
        }
        if lines.is_empty() {
            text.push_str(first_sep);
        }
        text.push_str(tail);
        Built { file_name, text, line_offsets, tag_lt, tag_gt }
    }

    /// Byte offset -> (1-based line, 1-based byte column), by counting newlines in the file text.
    fn line_col(text: &str, byte: usize) -> (usize, usize) {
        let before = &text[..byte];
        let line = before.matches('\n').count() + 1;
        let line_start = before.rfind('\n').map_or(0, |p| p + 1);
        (line, byte - line_start + 1)
    }

    type Parsers = CexHashMap<OsString, crate::language_parsers::LanguageParser>;

    fn parsers() -> Parsers {
        crate::language_parsers::language_parsers().unwrap()
    }

    /// Parses `text` with the grammar registered for the file's extension and wraps every block
    /// (all marked content-modified) into a one-file validation context.
    fn context_of(parsers: &Parsers, file_name: &str, text: &str) -> Result<CexArc<ValidationContext>, String> {
        let ext = file_name.rsplit('.').next().unwrap();
        let parser = parsers.get(&OsString::from(ext)).unwrap();
        let blocks = parser.borrow_mut().parse(text).map_err(|e| e.to_string())?;
        Ok(context_from_blocks(file_name, text, blocks))
    }

    fn context_from_blocks(file_name: &str, text: &str, blocks: Vec<Block>) -> CexArc<ValidationContext> {
        CexArc::new(ValidationContext::new(CexHashMap::from([(
            CexPathBuf::from(file_name),
            FileBlocks {
                file_content: text.to_string(),
                blocks_with_context: blocks
                    .into_iter()
                    .map(|block| BlockWithContext { block, _is_start_tag_modified: false, is_content_modified: true })
                    .collect(),
            },
        )])))
    }

    fn violation_json(v: &Violation) -> Value {
        json!({
            "code": v.code,
            "range": {"start": {"line": v.range.start.line, "character": v.range.start.character},
                      "end": {"line": v.range.end.line, "character": v.range.end.character}},
            "severity": serde_json::to_value(v.severity).unwrap(),
            "data": v.data,
            "message": v.message,
        })
    }

    /// Outcome of a validator run, flattened: Err(message) or the list of (file, violation json).
    fn outcome_json(r: &anyhow::Result<CexHashMap<CexPathBuf, Vec<Violation>>>) -> Value {
        match r {
            Err(e) => json!({"error": e.to_string()}),
            Ok(m) => {
                let mut files: Vec<_> = m.iter().collect();
                files.sort_by(|a, b| a.0.cmp(b.0));
                json!({"violations": files.iter().map(|(f, vs)| json!({"file": f.display().to_string(), "diagnostics": vs.iter().map(violation_json).collect::<Vec<_>>()})).collect::<Vec<_>>()})
            }
        }
    }

    /// Expected outcome of a one-block run for the "designates exactly this text" validators.
    #[derive(Debug, Clone, PartialEq)]
    enum Expect {
        /// No diagnostic.
        Clean,
        /// Exactly one diagnostic whose range is (line, first byte column) ..= (line, last byte column), 1-based.
        At { line: usize, col_start: usize, col_end: usize, key: String },
        /// validate() returns Err.
        Error,
    }

    fn expect_json(e: &Expect) -> Value {
        match e {
            Expect::Clean => json!({"violations": []}),
            Expect::Error => json!({"error": "any"}),
            Expect::At { line, col_start, col_end, key } => json!({"violations": [{"range": {"start": {"line": line, "character": col_start}, "end": {"line": line, "character": col_end}}, "text_at_range": key}]}),
        }
    }

    /// Compares the validator's result with the expectation; `code` is the diagnostic code the
    /// single violation must carry. The range check is C10: the reported 1-based (line, byte
    /// column) pair must delimit exactly the offending key in the file text.
    fn agrees(
        expected: &Expect,
        observed: &anyhow::Result<CexHashMap<CexPathBuf, Vec<Violation>>>,
        code: &str,
        file_name: &str,
        text: &str,
    ) -> bool {
        match (expected, observed) {
            (Expect::Error, Err(_)) => true,
            (Expect::Clean, Ok(m)) => m.values().all(|v| v.is_empty()),
            (Expect::At { line, col_start, col_end, key }, Ok(m)) => {
                let all: Vec<(&CexPathBuf, &Violation)> = m.iter().flat_map(|(f, vs)| vs.iter().map(move |v| (f, v))).collect();
                if all.len() != 1 {
                    return false;
                }
                let (f, v) = all[0];
                if f != &CexPathBuf::from(file_name) || v.code != code {
                    return false;
                }
                if (v.range.start.line, v.range.start.character, v.range.end.line, v.range.end.character)
                    != (*line, *col_start, *line, *col_end)
                {
                    return false;
                }
                // Independent re-check against the file bytes.
                let file_line = text.split('\n').nth(*line - 1).unwrap_or("");
                file_line.as_bytes().get(col_start - 1..*col_end) == Some(key.as_bytes())
            }
            _ => false,
        }
    }

    /// A diagnostic location expected in a multi-block / multi-file run.
    #[derive(Debug, Clone, PartialEq, Eq, PartialOrd, Ord)]
    struct Loc {
        file: String,
        line: usize,
        col_start: usize,
        col_end: usize,
        key: String,
    }

    fn locs_json(locs: &Option<Vec<Loc>>) -> Value {
        match locs {
            None => json!({"error": "any"}),
            Some(v) => json!({"violations": v.iter().map(|l| json!({"file": l.file, "range": {"start": {"line": l.line, "character": l.col_start}, "end": {"line": l.line, "character": l.col_end}}, "text_at_range": l.key})).collect::<Vec<_>>()}),
        }
    }

    /// Multi-block version of `agrees`: `expected` = None for Err, else the exact multiset of
    /// diagnostics (file, line, 1-based inclusive byte columns, text found there).
    fn agrees_all(
        expected: &Option<Vec<Loc>>,
        observed: &anyhow::Result<CexHashMap<CexPathBuf, Vec<Violation>>>,
        code: &str,
        texts: &[(&str, &str)],
    ) -> bool {
        match (expected, observed) {
            (None, Err(_)) => true,
            (Some(exp), Ok(m)) => {
                let mut obs: Vec<(String, usize, usize, usize, usize)> = Vec::new();
                for (f, vs) in m {
                    for v in vs {
                        if v.code != code {
                            return false;
                        }
                        obs.push((f.display().to_string(), v.range.start.line, v.range.start.character, v.range.end.line, v.range.end.character));
                    }
                }
                obs.sort();
                let mut exp_sorted: Vec<(String, usize, usize, usize, usize)> =
                    exp.iter().map(|l| (l.file.clone(), l.line, l.col_start, l.line, l.col_end)).collect();
                exp_sorted.sort();
                if obs != exp_sorted {
                    return false;
                }
                exp.iter().all(|l| {
                    let text = texts.iter().find(|(f, _)| *f == l.file).map(|(_, t)| *t).unwrap_or("");
                    let file_line = text.split('\n').nth(l.line - 1).unwrap_or("");
                    file_line.as_bytes().get(l.col_start - 1..l.col_end) == Some(l.key.as_bytes())
                })
            }
            _ => false,
        }
    }

    /// Several sibling blocks in one python file: `# <block attrs>` / lines / `# </block>` each.
    /// Returns the text and, per block, the byte offsets of its generated content lines.
    fn build_siblings(blocks: &[(&str, Vec<&str>)]) -> (String, Vec<Vec<usize>>) {
        let mut text = String::from("import os\n");
        let mut all = Vec::new();
        for (attrs, lines) in blocks {
            let sp = if attrs.is_empty() { "" } else { " " };
            text.push_str(&format!("# <block{sp}{attrs}>\n"));
            let mut offs = Vec::new();
            for l in lines {
                offs.push(text.len());
                text.push_str(l);
                text.push('\n');
            }
            text.push_str("# </block>\n\n");
            all.push(offs);
        }
        (text, all)
    }

    /// One validation context over several files, every block marked content-modified.
    fn context_of_files(parsers: &Parsers, files: &[(&str, &str)]) -> Result<CexArc<ValidationContext>, String> {
        let mut map = CexHashMap::new();
        for (name, text) in files {
            let ext = name.rsplit('.').next().unwrap();
            let parser = parsers.get(&OsString::from(ext)).unwrap();
            let blocks = parser.borrow_mut().parse(text).map_err(|e| e.to_string())?;
            map.insert(
                CexPathBuf::from(name),
                FileBlocks {
                    file_content: text.to_string(),
                    blocks_with_context: blocks
                        .into_iter()
                        .map(|block| BlockWithContext { block, _is_start_tag_modified: false, is_content_modified: true })
                        .collect(),
                },
            );
        }
        Ok(CexArc::new(ValidationContext::new(map)))
    }

    /// C01 reference shapes: same-file `:name`, cross-file `path:name`, comma lists, optional blanks;
    /// a reference without a colon is malformed. Returns (file or None for "own file", name).
    fn ref_parse_affects(value: &str) -> Option<Vec<(Option<String>, String)>> {
        let mut out = Vec::new();
        for part in value.split(',') {
            let part = part.trim_matches(char::is_whitespace);
            let colon = part.find(':')?;
            let file = part[..colon].trim_matches(char::is_whitespace);
            let name = part[colon + 1..].trim_matches(char::is_whitespace);
            out.push((if file.is_empty() { None } else { Some(file.to_string()) }, name.to_string()));
        }
        Some(out)
    }

    #[test]
    fn cex_V6p() {
        // every comma list of 1..=3 references from a pool of well-formed and malformed spellings
        let pool = [":a", "f.py:a", " f.py : a ", "dir/sub/f.py:b", "a/b:c", ":", "f.py:", "noc", "", " ", "f.py", ":a b", "\tx.rs:\u{e9}"];
        let mut values: Vec<String> = Vec::new();
        for a in pool {
            values.push(a.to_string());
            for b in pool {
                values.push(format!("{a},{b}"));
                values.push(format!("{a}, {b}"));
                for c in pool {
                    values.push(format!("{a},{b} ,{c}"));
                }
            }
        }
        let mut cases = 0u64;
        for v in &values {
            let expected = ref_parse_affects(v);
            let observed: Option<Vec<(Option<String>, String)>> = parse_affects_attribute(v)
                .ok()
                .map(|l| l.into_iter().map(|(f, n)| (f.map(|p| p.display().to_string()), n)).collect());
            cases += 1;
            if expected != observed {
                cex_fail(
                    "V6p",
                    "parse_affects_attribute: comma list of `file:name` / `:name` references (blanks ignored, empty file = own file); any reference without a colon makes the whole value an error",
                    json!({"affects": v}),
                    json!(expected.map_or(json!("Err"), |l| json!(l))),
                    json!(observed.map_or(json!("Err"), |l| json!(l))),
                );
            }
        }
        cex_none("V6p", cases, "every comma list of 1..=3 references over 13 spellings (same-file, cross-file, nested paths, blanks, empty name, empty reference, no colon, non-ASCII), with and without blanks after commas");
    }

    // ----------------------------------------------------------------------------------------
    // V6: validate
    // ----------------------------------------------------------------------------------------

    #[derive(Clone, Copy, Debug)]
    struct BlockSpec {
        name: Option<&'static str>,
        modified: bool,
        affects: Option<&'static str>,
    }

    /// Template: a.py holds two blocks, b.py one; tags carry no attributes in the text, the
    /// attributes are set on the parsed blocks per case (the validator never looks at the tag text).
    const A_TEXT: &str = "import os\n# <block>\nx = 1\n# </block>\n\n    # <block>\ny = 2\n    # </block>\n";
    const B_TEXT: &str = "# <block>\nz = 3\n# </block>\n";

    fn tag_positions(text: &str) -> Vec<((usize, usize), (usize, usize))> {
        let mut out = Vec::new();
        let mut from = 0;
        while let Some(p) = text[from..].find("<block>") {
            let lt = from + p;
            let gt = lt + "<block>".len() - 1;
            out.push((line_col(text, lt), line_col(text, gt)));
            from = gt;
        }
        out
    }

    #[test]
    fn cex_V6() {
        let parsers = parsers();
        let template = context_of_files(&parsers, &[("a.py", A_TEXT), ("b.py", B_TEXT)]).unwrap();
        let a_blocks: Vec<Block> = template.blocks[&CexPathBuf::from("a.py")].blocks_with_context.iter().map(|b| b.block.clone()).collect();
        let b_blocks: Vec<Block> = template.blocks[&CexPathBuf::from("b.py")].blocks_with_context.iter().map(|b| b.block.clone()).collect();
        assert_eq!((a_blocks.len(), b_blocks.len()), (2, 1));
        let a_tags = tag_positions(A_TEXT);
        let b_tags = tag_positions(B_TEXT);

        let names = [None, Some("x"), Some("y")];
        // references as seen from a block in a.py / in b.py
        let affects_a = [None, Some(":x"), Some(":y"), Some("b.py:x"), Some(":x, b.py:y"), Some("zz.py:x"), Some("a.py:y"), Some("nocolon"), Some(":x,bad")];
        let affects_b = [None, Some(":x"), Some("a.py:x"), Some("a.py:y, :y"), Some("nocolon")];

        let mut specs_a: Vec<BlockSpec> = Vec::new();
        for name in names {
            for modified in [false, true] {
                for affects in affects_a {
                    specs_a.push(BlockSpec { name, modified, affects });
                }
            }
        }
        let mut specs_b: Vec<BlockSpec> = Vec::new();
        for name in names {
            for modified in [false, true] {
                for affects in affects_b {
                    specs_b.push(BlockSpec { name, modified, affects });
                }
            }
        }
        let apply = |block: &Block, spec: &BlockSpec| -> BlockWithContext {
            let mut block = block.clone();
            if let Some(n) = spec.name {
                block.attributes.insert("name".into(), n.into());
            }
            if let Some(a) = spec.affects {
                block.attributes.insert("affects".into(), a.into());
            }
            BlockWithContext { block, _is_start_tag_modified: false, is_content_modified: spec.modified }
        };

        let mut cases = 0u64;
        for s1 in &specs_a {
            for s2 in &specs_a {
                for s3 in &specs_b {
                    // thin out: skip combinations in which nothing is modified (trivially silent) except one representative
                    if !s1.modified && !s2.modified && !s3.modified && (s1.name.is_some() || s2.name.is_some() || s3.name.is_some()) {
                        continue;
                    }
                    let all = [("a.py", 0usize, s1, &a_tags[0]), ("a.py", 1, s2, &a_tags[1]), ("b.py", 0, s3, &b_tags[0])];
                    // ---- oracle (C01 / DESIGN 6 V6) ----
                    // modified named blocks per file
                    let has_modified = |file: &str, name: &str| all.iter().any(|(f, _, s, _)| *f == file && s.modified && s.name == Some(name));
                    let mut expected: Option<Vec<(String, (usize, usize), (usize, usize), String, String)>> = Some(Vec::new());
                    for (file, _, spec, tag) in &all {
                        if !spec.modified {
                            continue; // unmodified blocks contribute nothing - their references are not even read
                        }
                        let Some(affects) = spec.affects else { continue };
                        match ref_parse_affects(affects) {
                            None => {
                                expected = None;
                                break;
                            }
                            Some(refs) => {
                                for (rf, rn) in refs {
                                    let target_file = rf.unwrap_or_else(|| file.to_string());
                                    if !has_modified(&target_file, &rn) {
                                        if let Some(e) = expected.as_mut() {
                                            e.push((file.to_string(), tag.0, tag.1, target_file.clone(), rn.clone()));
                                        }
                                    }
                                }
                            }
                        }
                    }
                    // ---- run ----
                    let context = CexArc::new(ValidationContext::new(CexHashMap::from([
                        (
                            CexPathBuf::from("a.py"),
                            FileBlocks { file_content: A_TEXT.to_string(), blocks_with_context: vec![apply(&a_blocks[0], s1), apply(&a_blocks[1], s2)] },
                        ),
                        (
                            CexPathBuf::from("b.py"),
                            FileBlocks { file_content: B_TEXT.to_string(), blocks_with_context: vec![apply(&b_blocks[0], s3)] },
                        ),
                    ])));
                    let observed = AffectsValidator::new().validate(context);
                    cases += 1;
                    let observed_flat: Option<Vec<(String, (usize, usize), (usize, usize), String, String)>> = match &observed {
                        Err(_) => None,
                        Ok(m) => {
                            let mut v = Vec::new();
                            for (f, vs) in m {
                                for x in vs {
                                    let data = x.data.clone().unwrap_or(Value::Null);
                                    v.push((
                                        f.display().to_string(),
                                        (x.range.start.line, x.range.start.character),
                                        (x.range.end.line, x.range.end.character),
                                        data["affected_block_file_path"].as_str().unwrap_or("?").to_string(),
                                        data["affected_block_name"].as_str().unwrap_or("?").to_string(),
                                    ));
                                }
                            }
                            v.sort();
                            Some(v)
                        }
                    };
                    let mut expected_sorted = expected.clone();
                    if let Some(e) = expected_sorted.as_mut() {
                        e.sort();
                    }
                    let codes_ok = observed.as_ref().map_or(true, |m| m.values().flatten().all(|v| v.code == "affects"));
                    if expected_sorted != observed_flat || !codes_ok {
                        let describe = |file: &str, idx: usize, s: &BlockSpec| json!({"file": file, "block_index": idx, "name": s.name, "affects": s.affects, "is_content_modified": s.modified});
                        cex_fail(
                            "V6",
                            "affects: one violation per reference of a content-modified block whose target (file, name) has no content-modified block of that name - filed under the modified block's file, spanning its start tag `<`..`>`; a reference without a colon on a modified block is an error; unmodified blocks contribute and satisfy nothing",
                            json!({
                                "files": [{"file_name": "a.py", "file_text": A_TEXT}, {"file_name": "b.py", "file_text": B_TEXT}],
                                "blocks": [describe("a.py", 0, s1), describe("a.py", 1, s2), describe("b.py", 0, s3)],
                                "note": "attributes are set on the parsed blocks; the tags in the text are bare `<block>`",
                            }),
                            json!(expected_sorted.map_or(json!({"error": "any"}), |e| json!(e.iter().map(|(f, s, t, tf, tn)| json!({"file": f, "range": {"start": s, "end": t}, "affected_block_file_path": tf, "affected_block_name": tn})).collect::<Vec<_>>()))),
                            outcome_json(&observed),
                        );
                    }
                }
            }
        }
        // Full-path spot checks through the real tag parser and `validation_context_with_changes`
        // (line changes decide is_content_modified): a cycle, duplicate names, a missing target.
        use crate::diff_parser::LineChange;
        use crate::test_utils::validation_context_with_changes;
        let text = "# <block name=\"p\" affects=\":q\">\none\n# </block>\n# <block name=\"q\" affects=\":p, :missing\">\ntwo\n# </block>\n# <block name=\"q\">\nthree\n# </block>\n";
        for (changed_lines, expected_targets) in [
            (vec![2usize], vec![(1usize, "q")]),
            (vec![2, 5], vec![(4, "missing")]),
            (vec![2, 8], vec![]),
            (vec![5], vec![(4, "p"), (4, "missing")]),
            (vec![8], vec![]),
            (vec![], vec![]),
        ] {
            let context = validation_context_with_changes(
                "f.py",
                text,
                changed_lines.iter().map(|l| LineChange { line: *l, ranges: None }).collect(),
            );
            let observed = AffectsValidator::new().validate(context);
            cases += 1;
            let mut got: Vec<(usize, String)> = observed
                .as_ref()
                .map(|m| m.values().flatten().map(|v| (v.range.start.line, v.data.as_ref().unwrap()["affected_block_name"].as_str().unwrap().to_string())).collect())
                .unwrap_or_default();
            got.sort();
            let mut want: Vec<(usize, String)> = expected_targets.iter().map(|(l, n)| (*l, n.to_string())).collect();
            want.sort();
            if observed.is_err() || got != want {
                cex_fail(
                    "V6",
                    "affects through the real parser: a block is modified iff a changed line lies in its content; violations name the unmodified targets only",
                    json!({"file_name": "f.py", "file_text": text, "changed_lines": changed_lines}),
                    json!(want),
                    outcome_json(&observed),
                );
            }
        }
        cex_none(
            "V6",
            cases,
            "3 blocks (2 in a.py, 1 in b.py) x name in {none,x,y} x modified in {no,yes} x affects in 9 (a.py) / 5 (b.py) values incl. same-file, cross-file, comma lists, missing file, self/cycle, duplicate names, no colon; all-unmodified combinations thinned; 6 full-path cases through the real parser and line changes",
        );
    }
}
