
// ---------------------------------------------------------------------------------------------
// verif_cex: small-scope exhaustive differential harness for src/validators/keep_unique.rs
// unit: V2                         (see /verif/cex/README.md, /verif/cex/MAP.json)
// This text is appended verbatim to a scratch copy of src/validators/keep_unique.rs.
// ---------------------------------------------------------------------------------------------
#[cfg(test)]
#[allow(unused_imports, dead_code, clippy::all)]
mod verif_cex {
    use super::*;
    use crate::blocks::{Block, BlockWithContext, FileBlocks};
    use crate::validators::{ValidationContext, ValidatorSync, Violation};
    use serde_json::{Value, json};
    use std::collections::HashMap as CexHashMap;
    use std::ffi::OsString;
    use std::path::PathBuf as CexPathBuf;
    use std::sync::Arc as CexArc;

    fn cex_fail(unit: &str, what: &str, input: Value, expected: Value, observed: Value) -> ! {
        println!(
            "VERIF-CEX {}",
            json!({"unit": unit, "what": what, "input": input, "expected": expected, "observed": observed})
        );
        panic!("counterexample for unit {unit}: {what}");
    }

    fn cex_none(unit: &str, cases: u64, bound: &str) {
        println!(
            "VERIF-CEX-NONE {}",
            json!({"unit": unit, "cases": cases, "bound": bound})
        );
    }

    struct Lcg(u64);
    impl Lcg {
        fn from_env() -> Self {
            let seed = std::env::var("VERIF_SEED")
                .ok()
                .and_then(|s| s.parse::<u64>().ok())
                .unwrap_or(1);
            Lcg(seed.wrapping_mul(0x9E3779B97F4A7C15).wrapping_add(0x1234567))
        }
        fn next(&mut self, n: u64) -> u64 {
            self.0 = self.0.wrapping_mul(6364136223846793005).wrapping_add(1442695040888963407);
            (self.0 >> 33) % n
        }
    }

    /// A generated source file with one block; `line_offsets[i]` is the byte offset in `text` at
    /// which the i-th generated content line starts (ground truth by construction).
    struct Built {
        file_name: &'static str,
        text: String,
        line_offsets: Vec<usize>,
        /// byte offsets of the start tag's `<` and `>` in `text`
        tag_lt: usize,
        tag_gt: usize,
    }

    const LAYOUTS: usize = 6;

    fn layout_name(layout: usize) -> &'static str {
        [
            "python: `# <block ..>` / lines / `# </block>`",
            "rust: start tag's block comment continues for two lines after the tag, then lines, `// </block>`",
            "rust: one-line block comment, content starts on the tag's own line, `/* </block> */` on its own line",
            "rust: code before, indented `// <block ..>`, end tag `/* </block> */` shares the last content line",
            "rust: tag on the last line of a three-line block comment, content starts on that line",
            "rust: multi-line start tag (attributes on separate lines) inside a block comment, then lines",
        ][layout]
    }

    /// Builds a file holding one block with the given start-tag attribute text and content lines.
    fn build(layout: usize, attrs: &str, lines: &[&str]) -> Built {
        let sp = if attrs.is_empty() { "" } else { " " };
        let (file_name, head, first_sep, tail): (&'static str, String, &str, &str) = match layout {
            0 => ("f.py", format!("# <block{sp}{attrs}>"), "\n", "\n# </block>\n"),
            1 => ("f.rs", format!("/* <block{sp}{attrs}>\n   note\n   more */"), "\n", "\n// </block>\n"),
            2 => ("f.rs", format!("/* <block{sp}{attrs}> */"), " ", "\n/* </block> */\n"),
            3 => ("f.rs", format!("fn x() {{}}\n\n    // <block{sp}{attrs}>"), "\n", " /* </block> */\nfn y() {}\n"),
            4 => ("f.rs", format!("/*\n note\n  <block{sp}{attrs}> */"), " ", "\n// </block>\n"),
            5 => ("f.rs", format!("  /* <block\n{sp}{}\n> */", attrs.replace("\" ", "\"\n   ")), "\n", "\n  // </block>\n"),
            _ => unreachable!(),
        };
        let tag_lt = head.find("<block").unwrap();
        let tag_gt = head.rfind('>').unwrap();
        let mut text = head;
        let mut line_offsets = Vec::new();
        for (i, l) in lines.iter().enumerate() {
            text.push_str(if i == 0 { first_sep } else { "\n" });
            line_offsets.push(text.len());
            text.push_str(l);
        }
        if lines.is_empty() {
            text.push_str(first_sep);
        }
        text.push_str(tail);
        Built { file_name, text, line_offsets, tag_lt, tag_gt }
    }

    /// Byte offset -> (1-based line, 1-based byte column), by counting newlines in the file text.
    fn line_col(text: &str, byte: usize) -> (usize, usize) {
        let before = &text[..byte];
        let line = before.matches('\n').count() + 1;
        let line_start = before.rfind('\n').map_or(0, |p| p + 1);
        (line, byte - line_start + 1)
    }

    type Parsers = CexHashMap<OsString, crate::language_parsers::LanguageParser>;

    fn parsers() -> Parsers {
        crate::language_parsers::language_parsers().unwrap()
    }

    /// Parses `text` with the grammar registered for the file's extension and wraps every block
    /// (all marked content-modified) into a one-file validation context.
    fn context_of(parsers: &Parsers, file_name: &str, text: &str) -> Result<CexArc<ValidationContext>, String> {
        let ext = file_name.rsplit('.').next().unwrap();
        let parser = parsers.get(&OsString::from(ext)).unwrap();
        let blocks = parser.borrow_mut().parse(text).map_err(|e| e.to_string())?;
        Ok(context_from_blocks(file_name, text, blocks))
    }

    fn context_from_blocks(file_name: &str, text: &str, blocks: Vec<Block>) -> CexArc<ValidationContext> {
        CexArc::new(ValidationContext::new(CexHashMap::from([(
            CexPathBuf::from(file_name),
            FileBlocks {
                file_content: text.to_string(),
                blocks_with_context: blocks
                    .into_iter()
                    .map(|block| BlockWithContext { block, _is_start_tag_modified: false, is_content_modified: true })
                    .collect(),
            },
        )])))
    }

    fn violation_json(v: &Violation) -> Value {
        json!({
            "code": v.code,
            "range": {"start": {"line": v.range.start.line, "character": v.range.start.character},
                      "end": {"line": v.range.end.line, "character": v.range.end.character}},
            "severity": serde_json::to_value(v.severity).unwrap(),
            "data": v.data,
            "message": v.message,
        })
    }

    /// Outcome of a validator run, flattened: Err(message) or the list of (file, violation json).
    fn outcome_json(r: &anyhow::Result<CexHashMap<CexPathBuf, Vec<Violation>>>) -> Value {
        match r {
            Err(e) => json!({"error": e.to_string()}),
            Ok(m) => {
                let mut files: Vec<_> = m.iter().collect();
                files.sort_by(|a, b| a.0.cmp(b.0));
                json!({"violations": files.iter().map(|(f, vs)| json!({"file": f.display().to_string(), "diagnostics": vs.iter().map(violation_json).collect::<Vec<_>>()})).collect::<Vec<_>>()})
            }
        }
    }

    /// Expected outcome of a one-block run for the "designates exactly this text" validators.
    #[derive(Debug, Clone, PartialEq)]
    enum Expect {
        /// No diagnostic.
        Clean,
        /// Exactly one diagnostic whose range is (line, first byte column) ..= (line, last byte column), 1-based.
        At { line: usize, col_start: usize, col_end: usize, key: String },
        /// validate() returns Err.
        Error,
    }

    fn expect_json(e: &Expect) -> Value {
        match e {
            Expect::Clean => json!({"violations": []}),
            Expect::Error => json!({"error": "any"}),
            Expect::At { line, col_start, col_end, key } => json!({"violations": [{"range": {"start": {"line": line, "character": col_start}, "end": {"line": line, "character": col_end}}, "text_at_range": key}]}),
        }
    }

    /// Compares the validator's result with the expectation; `code` is the diagnostic code the
    /// single violation must carry. The range check is C10: the reported 1-based (line, byte
    /// column) pair must delimit exactly the offending key in the file text.
    fn agrees(
        expected: &Expect,
        observed: &anyhow::Result<CexHashMap<CexPathBuf, Vec<Violation>>>,
        code: &str,
        file_name: &str,
        text: &str,
    ) -> bool {
        match (expected, observed) {
            (Expect::Error, Err(_)) => true,
            (Expect::Clean, Ok(m)) => m.values().all(|v| v.is_empty()),
            (Expect::At { line, col_start, col_end, key }, Ok(m)) => {
                let all: Vec<(&CexPathBuf, &Violation)> = m.iter().flat_map(|(f, vs)| vs.iter().map(move |v| (f, v))).collect();
                if all.len() != 1 {
                    return false;
                }
                let (f, v) = all[0];
                if f != &CexPathBuf::from(file_name) || v.code != code {
                    return false;
                }
                if (v.range.start.line, v.range.start.character, v.range.end.line, v.range.end.character)
                    != (*line, *col_start, *line, *col_end)
                {
                    return false;
                }
                // Independent re-check against the file bytes. An EMPTY key occupies no byte: its range
                // is the single column where it was found (start == end >= 1, never column 0, never
                // end < start); a non-empty key's columns slice exactly the key out of the file line.
                if key.is_empty() {
                    return *col_end == *col_start && *col_start >= 1;
                }
                let file_line = text.split('\n').nth(*line - 1).unwrap_or("");
                file_line.as_bytes().get(col_start - 1..*col_end) == Some(key.as_bytes())
            }
            _ => false,
        }
    }

    /// A diagnostic location expected in a multi-block / multi-file run.
    #[derive(Debug, Clone, PartialEq, Eq, PartialOrd, Ord)]
    struct Loc {
        file: String,
        line: usize,
        col_start: usize,
        col_end: usize,
        key: String,
    }

    fn locs_json(locs: &Option<Vec<Loc>>) -> Value {
        match locs {
            None => json!({"error": "any"}),
            Some(v) => json!({"violations": v.iter().map(|l| json!({"file": l.file, "range": {"start": {"line": l.line, "character": l.col_start}, "end": {"line": l.line, "character": l.col_end}}, "text_at_range": l.key})).collect::<Vec<_>>()}),
        }
    }

    /// Multi-block version of `agrees`: `expected` = None for Err, else the exact multiset of
    /// diagnostics (file, line, 1-based inclusive byte columns, text found there).
    fn agrees_all(
        expected: &Option<Vec<Loc>>,
        observed: &anyhow::Result<CexHashMap<CexPathBuf, Vec<Violation>>>,
        code: &str,
        texts: &[(&str, &str)],
    ) -> bool {
        match (expected, observed) {
            (None, Err(_)) => true,
            (Some(exp), Ok(m)) => {
                let mut obs: Vec<(String, usize, usize, usize, usize)> = Vec::new();
                for (f, vs) in m {
                    for v in vs {
                        if v.code != code {
                            return false;
                        }
                        obs.push((f.display().to_string(), v.range.start.line, v.range.start.character, v.range.end.line, v.range.end.character));
                    }
                }
                obs.sort();
                let mut exp_sorted: Vec<(String, usize, usize, usize, usize)> =
                    exp.iter().map(|l| (l.file.clone(), l.line, l.col_start, l.line, l.col_end)).collect();
                exp_sorted.sort();
                if obs != exp_sorted {
                    return false;
                }
                exp.iter().all(|l| {
                    let text = texts.iter().find(|(f, _)| *f == l.file).map(|(_, t)| *t).unwrap_or("");
                    let file_line = text.split('\n').nth(l.line - 1).unwrap_or("");
                    file_line.as_bytes().get(l.col_start - 1..l.col_end) == Some(l.key.as_bytes())
                })
            }
            _ => false,
        }
    }

    /// Several sibling blocks in one python file: `# <block attrs>` / lines / `# </block>` each.
    /// Returns the text and, per block, the byte offsets of its generated content lines.
    fn build_siblings(blocks: &[(&str, Vec<&str>)]) -> (String, Vec<Vec<usize>>) {
        let mut text = String::from("import os\n");
        let mut all = Vec::new();
        for (attrs, lines) in blocks {
            let sp = if attrs.is_empty() { "" } else { " " };
            text.push_str(&format!("# <block{sp}{attrs}>\n"));
            let mut offs = Vec::new();
            for l in lines {
                offs.push(text.len());
                text.push_str(l);
                text.push('\n');
            }
            text.push_str("# </block>\n\n");
            all.push(offs);
        }
        (text, all)
    }

    /// One validation context over several files, every block marked content-modified.
    fn context_of_files(parsers: &Parsers, files: &[(&str, &str)]) -> Result<CexArc<ValidationContext>, String> {
        let mut map = CexHashMap::new();
        for (name, text) in files {
            let ext = name.rsplit('.').next().unwrap();
            let parser = parsers.get(&OsString::from(ext)).unwrap();
            let blocks = parser.borrow_mut().parse(text).map_err(|e| e.to_string())?;
            map.insert(
                CexPathBuf::from(name),
                FileBlocks {
                    file_content: text.to_string(),
                    blocks_with_context: blocks
                        .into_iter()
                        .map(|block| BlockWithContext { block, _is_start_tag_modified: false, is_content_modified: true })
                        .collect(),
                },
            );
        }
        Ok(CexArc::new(ValidationContext::new(map)))
    }

    /// One content line with its key per key-extraction mode, as byte spans within the line
    /// (ground truth by annotation, not by running a regex).
    #[derive(Clone, Copy, Debug)]
    struct Sym {
        text: &'static str,
        /// key under keep-unique="k=(?P<value>[^ ]+)"
        group: Option<(usize, usize)>,
        /// key under keep-unique="k=[^ ]+" (no group: whole match)
        plain: Option<(usize, usize)>,
    }

    const GROUP_PATTERN: &str = "k=(?P<value>[^ ]+)";
    const PLAIN_PATTERN: &str = "k=[^ ]+";

    const fn t(text: &'static str) -> Sym {
        Sym { text, group: None, plain: None }
    }

    fn trimmed_span(line: &str) -> Option<(usize, usize)> {
        let first = line.char_indices().find(|(_, c)| !c.is_whitespace())?.0;
        let (last, ch) = line.char_indices().rev().find(|(_, c)| !c.is_whitespace())?;
        Some((first, last + ch.len_utf8()))
    }

    #[derive(Clone, Copy, Debug, PartialEq)]
    enum Mode {
        Trim,
        Group,
        Plain,
        /// keep-unique="(?P<value>z*)": the match can be EMPTY
        EmptyGroup,
        /// keep-unique="z*" (no group: whole match), can be EMPTY as well
        EmptyPlain,
    }

    /// Patterns whose match can be empty: every line matches at offset 0 and the key is the leading
    /// run of `z` bytes of the line, possibly "" (C07: "the `value` group (else the whole match) of
    /// each matching line" - an empty key IS a key, so two lines `a` and `b` share the key ""). A
    /// BLANK line never has a key, whatever the pattern matches.
    const EMPTY_GROUP_PATTERN: &str = "(?P<value>z*)";
    const EMPTY_PLAIN_PATTERN: &str = "z*";

    /// ground truth for the two patterns above by a plain byte scan (no regex)
    fn leading_z_span(line: &str) -> Option<(usize, usize)> {
        if line.chars().all(char::is_whitespace) {
            return None;
        }
        Some((0, line.bytes().take_while(|b| *b == b'z').count()))
    }

    fn key_span(sym: &Sym, mode: Mode) -> Option<(usize, usize)> {
        match mode {
            Mode::Trim => trimmed_span(sym.text),
            Mode::Group => sym.group,
            Mode::Plain => sym.plain,
            Mode::EmptyGroup | Mode::EmptyPlain => leading_z_span(sym.text),
        }
    }

    fn attrs_of(mode: Mode, bare: bool) -> String {
        match mode {
            Mode::Trim => if bare { "keep-unique".to_string() } else { "keep-unique=\"\"".to_string() },
            Mode::Group => format!("keep-unique=\"{GROUP_PATTERN}\""),
            Mode::Plain => format!("keep-unique=\"{PLAIN_PATTERN}\""),
            Mode::EmptyGroup => format!("keep-unique=\"{EMPTY_GROUP_PATTERN}\""),
            Mode::EmptyPlain => format!("keep-unique=\"{EMPTY_PLAIN_PATTERN}\""),
        }
    }

    /// repeated keys, keys differing only in indentation or trailing blanks, blank lines, case.
    const TRIM_ALPHABET: [Sym; 8] = [t("a"), t("b"), t("  a"), t("a  "), t(""), t("   "), t("ab"), t("A")];

    /// keys differing only outside the regex group / match, non-matching and blank lines.
    const PATTERN_ALPHABET: [Sym; 7] = [
        Sym { text: "k=a", group: Some((2, 3)), plain: Some((0, 3)) },
        Sym { text: "k=b", group: Some((2, 3)), plain: Some((0, 3)) },
        Sym { text: "x k=a", group: Some((4, 5)), plain: Some((2, 5)) },
        Sym { text: "\u{e9} k=b y k=a", group: Some((5, 6)), plain: Some((3, 6)) },
        Sym { text: "nomatch a", group: None, plain: None },
        Sym { text: "", group: None, plain: None },
        Sym { text: "k=ab", group: Some((2, 4)), plain: Some((0, 4)) },
    ];

    /// C07 oracle: the first line whose key equals the key of an earlier line (brute force over
    /// all earlier lines); blank / non-matching lines have no key. Returns (absolute byte offset, key).
    fn ref_first_duplicate(syms: &[Sym], offsets: &[usize], mode: Mode) -> Option<(usize, String)> {
        ref_first_duplicate_led(syms, offsets, mode, false)
    }

    /// `first_line_led_by_blank`: the content begins on the tag's own line, so the first content line
    /// is the separating blank + the generated line; a pattern anchored at the line start (the
    /// empty-match modes) then finds the EMPTY key in front of that blank.
    fn ref_first_duplicate_led(syms: &[Sym], offsets: &[usize], mode: Mode, first_line_led_by_blank: bool) -> Option<(usize, String)> {
        // (absolute byte offset of the key, key) per line; None = the line has no key
        let keys: Vec<Option<(usize, &str)>> = syms
            .iter()
            .enumerate()
            .map(|(i, s)| {
                if i == 0 && first_line_led_by_blank && matches!(mode, Mode::EmptyGroup | Mode::EmptyPlain) {
                    return leading_z_span(s.text).map(|_| (offsets[0] - 1, ""));
                }
                key_span(s, mode).map(|(a, b)| (offsets[i] + a, &s.text[a..b]))
            })
            .collect();
        for i in 0..syms.len() {
            let Some((abs, k)) = keys[i] else { continue };
            for j in 0..i {
                if keys[j].map(|x| x.1) == Some(k) {
                    return Some((abs, k.to_string()));
                }
            }
        }
        None
    }

    fn ref_keep_unique(syms: &[Sym], built: &Built, mode: Mode) -> Expect {
        let led_by_blank = !built.line_offsets.is_empty() && built.line_offsets[0] > 0 && built.text.as_bytes()[built.line_offsets[0] - 1] == b' ';
        match ref_first_duplicate_led(syms, &built.line_offsets, mode, led_by_blank) {
            None => Expect::Clean,
            Some((abs, key)) => {
                let (line, col) = line_col(&built.text, abs);
                // C10: the columns delimit the key; an empty key is the single column where it was found
                let col_end = if key.is_empty() { col } else { col + key.len() - 1 };
                Expect::At { line, col_start: col, col_end, key }
            }
        }
    }

    fn run_case(parsers: &Parsers, layout: usize, mode: Mode, bare: bool, syms: &[Sym], cases: &mut u64) {
        let lines: Vec<&str> = syms.iter().map(|s| s.text).collect();
        let built = build(layout, &attrs_of(mode, bare), &lines);
        let input = json!({
            "file_name": built.file_name,
            "file_text": built.text,
            "layout": layout_name(layout),
            "keep-unique": match mode { Mode::Trim => json!(""), Mode::Group => json!(GROUP_PATTERN), Mode::Plain => json!(PLAIN_PATTERN), Mode::EmptyGroup => json!(EMPTY_GROUP_PATTERN), Mode::EmptyPlain => json!(EMPTY_PLAIN_PATTERN) },
            "content_lines": lines,
        });
        let context = match context_of(parsers, built.file_name, &built.text) {
            Ok(c) => c,
            Err(e) => cex_fail("V2", "generated one-block file failed to parse", input, json!("one block"), json!(e)),
        };
        let expected = ref_keep_unique(syms, &built, mode);
        let observed = KeepUniqueValidator::new().validate(context);
        *cases += 1;
        if !agrees(&expected, &observed, "keep-unique", built.file_name, &built.text) {
            cex_fail(
                "V2",
                "keep-unique: expected exactly one diagnostic at the first line whose key already occurred (none if all keys differ), at the file line / 1-based byte columns that delimit that key",
                input,
                expect_json(&expected),
                outcome_json(&observed),
            );
        }
    }

    /// Layout 0 fast path: parse once per sequence, re-label the block per key mode (see V1).
    fn run_fast(parsers: &Parsers, attr_cache: &mut CexHashMap<String, CexHashMap<String, String>>, modes: &[Mode], syms: &[Sym], cases: &mut u64) {
        let lines: Vec<&str> = syms.iter().map(|s| s.text).collect();
        let built = build(0, "keep-unique", &lines);
        let Ok(parsed) = context_of(parsers, built.file_name, &built.text) else {
            run_case(parsers, 0, modes[0], true, syms, cases);
            return;
        };
        let block0 = parsed.blocks.values().next().unwrap().blocks_with_context[0].block.clone();
        for mode in modes {
            let attrs = attrs_of(*mode, true);
            let attributes = attr_cache
                .entry(attrs.clone())
                .or_insert_with(|| {
                    let b = build(0, &attrs, &[]);
                    let c = context_of(parsers, b.file_name, &b.text).unwrap();
                    c.blocks.values().next().unwrap().blocks_with_context[0].block.attributes.clone()
                })
                .clone();
            let mut block = block0.clone();
            block.attributes = attributes;
            let context = context_from_blocks(built.file_name, &built.text, vec![block]);
            let expected = ref_keep_unique(syms, &built, *mode);
            let observed = KeepUniqueValidator::new().validate(context);
            *cases += 1;
            if !agrees(&expected, &observed, "keep-unique", built.file_name, &built.text) {
                let mut dummy = 0u64;
                run_case(parsers, 0, *mode, true, syms, &mut dummy);
                cex_fail(
                    "V2",
                    "harness inconsistency: the re-labelled block disagreed with the oracle but the fully parsed file did not",
                    json!({"file_text": built.text, "attributes": attrs}),
                    expect_json(&expected),
                    outcome_json(&observed),
                );
            }
        }
    }

    fn sequences(alphabet: &[Sym], max_len: usize) -> Vec<Vec<Sym>> {
        let mut out: Vec<Vec<Sym>> = vec![vec![]];
        let mut layer: Vec<Vec<Sym>> = vec![vec![]];
        for _ in 0..max_len {
            let mut next = Vec::new();
            for s in &layer {
                for a in alphabet {
                    let mut t = s.clone();
                    t.push(*a);
                    next.push(t);
                }
            }
            out.extend(next.iter().cloned());
            layer = next;
        }
        out
    }

    #[test]
    fn cex_V2() {
        let parsers = parsers();
        let mut cache = CexHashMap::new();
        let mut cases = 0u64;
        // (a) no regex: every sequence of <= 5 lines over the 8-line alphabet.
        for seq in sequences(&TRIM_ALPHABET, 5) {
            run_fast(&parsers, &mut cache, &[Mode::Trim], &seq, &mut cases);
        }
        // (b) group regex / plain regex: every sequence of <= 4 lines over the 7 annotated lines
        //     (each case compiles a regex, ~1 ms in a debug build).
        for seq in sequences(&PATTERN_ALPHABET, 4) {
            run_fast(&parsers, &mut cache, &[Mode::Group, Mode::Plain], &seq, &mut cases);
        }
        // (b') patterns whose match can be EMPTY, `(?P<value>z*)` and `z*`: the key of a non-blank line
        //      is its leading run of `z`, possibly "" - `a` and `b` both have the key "", so the second
        //      of them is the duplicate, reported at the single column where the empty key was found;
        //      a blank line has no key. Every sequence of <= 3 lines over 9 lines, layout 0; and <= 2
        //      lines where the content begins on the tag's own line (2, 4) / the end tag shares the last line (3).
        let empty_alphabet = [t("zb"), t("a"), t("zza"), t(""), t("   "), t("z"), t("b"), t("zz"), t(" zb")];
        for seq in sequences(&empty_alphabet, 3) {
            run_fast(&parsers, &mut cache, &[Mode::EmptyGroup, Mode::EmptyPlain], &seq, &mut cases);
        }
        for layout in [2usize, 3, 4] {
            for seq in sequences(&empty_alphabet, 2) {
                run_case(&parsers, layout, Mode::EmptyGroup, false, &seq, &mut cases);
                run_case(&parsers, layout, Mode::EmptyPlain, false, &seq, &mut cases);
            }
        }
        // (c) every comment layout (C10), `keep-unique=""` spelling.
        let small_trim = [t("a"), t("b"), t("  a "), t(""), t("\u{e9} b")];
        let small_pattern = [PATTERN_ALPHABET[0], PATTERN_ALPHABET[2], PATTERN_ALPHABET[3], PATTERN_ALPHABET[4]];
        for layout in 0..LAYOUTS {
            for seq in sequences(&small_trim, 3) {
                run_case(&parsers, layout, Mode::Trim, false, &seq, &mut cases);
            }
            for seq in sequences(&small_pattern, 2) {
                run_case(&parsers, layout, Mode::Group, false, &seq, &mut cases);
                run_case(&parsers, layout, Mode::Plain, false, &seq, &mut cases);
            }
        }
        // (d) several blocks: keys of one block never count for another (siblings in one file,
        //     blocks in two files, a nested block whose tag lines are ordinary lines of the outer block).
        let pair_alphabet = [t("a"), t("b"), t("  a"), t("")];
        let pair_seqs = sequences(&pair_alphabet, 2);
        for s1 in &pair_seqs {
            for s2 in &pair_seqs {
                let l1: Vec<&str> = s1.iter().map(|s| s.text).collect();
                let l2: Vec<&str> = s2.iter().map(|s| s.text).collect();
                // siblings in one file
                {
                    let (text, offs) = build_siblings(&[("keep-unique", l1.clone()), ("keep-unique", l2.clone())]);
                    let mut expected = Vec::new();
                    for (syms, o) in [(s1, &offs[0]), (s2, &offs[1])] {
                        if let Some((abs, key)) = ref_first_duplicate(syms, o, Mode::Trim) {
                            let (line, col) = line_col(&text, abs);
                            expected.push(Loc { file: "f.py".into(), line, col_start: col, col_end: col + key.len() - 1, key });
                        }
                    }
                    let context = context_of_files(&parsers, &[("f.py", &text)]).unwrap();
                    let observed = KeepUniqueValidator::new().validate(context);
                    cases += 1;
                    if !agrees_all(&Some(expected.clone()), &observed, "keep-unique", &[("f.py", &text)]) {
                        cex_fail(
                            "V2",
                            "keep-unique with two sibling blocks: each block is judged on its own keys only",
                            json!({"files": [{"file_name": "f.py", "file_text": text}]}),
                            locs_json(&Some(expected)),
                            outcome_json(&observed),
                        );
                    }
                }
                // one block per file
                {
                    let (text1, offs1) = build_siblings(&[("keep-unique", l1.clone())]);
                    let (text2, offs2) = build_siblings(&[("keep-unique", l2.clone())]);
                    let mut expected = Vec::new();
                    for (file, text, syms, o) in [("a.py", &text1, s1, &offs1[0]), ("b.py", &text2, s2, &offs2[0])] {
                        if let Some((abs, key)) = ref_first_duplicate(syms, o, Mode::Trim) {
                            let (line, col) = line_col(text, abs);
                            expected.push(Loc { file: file.into(), line, col_start: col, col_end: col + key.len() - 1, key });
                        }
                    }
                    let files = [("a.py", text1.as_str()), ("b.py", text2.as_str())];
                    let context = context_of_files(&parsers, &files).unwrap();
                    let observed = KeepUniqueValidator::new().validate(context);
                    cases += 1;
                    if !agrees_all(&Some(expected.clone()), &observed, "keep-unique", &files) {
                        cex_fail(
                            "V2",
                            "keep-unique with one block in each of two files: each block is judged on its own keys only",
                            json!({"files": [{"file_name": "a.py", "file_text": text1}, {"file_name": "b.py", "file_text": text2}]}),
                            locs_json(&Some(expected)),
                            outcome_json(&observed),
                        );
                    }
                }
            }
        }
        // nested: the outer block's lines are x, `# <block keep-unique>`, inner lines, `# </block>`, y, [second inner block]
        for x in ["a", "b"] {
            for y in ["a", "b", "# </block>x"] {
                for inner in sequences(&[t("a"), t("b")], 2) {
                    for second_inner in [false, true] {
                        let inner_lines: Vec<&str> = inner.iter().map(|s| s.text).collect();
                        let mut outer_lines: Vec<String> = vec![x.to_string(), "# <block keep-unique>".to_string()];
                        outer_lines.extend(inner_lines.iter().map(|s| s.to_string()));
                        outer_lines.push("# </block>".to_string());
                        if y != "# </block>x" {
                            outer_lines.push(y.to_string());
                        }
                        if second_inner {
                            outer_lines.push("# <block keep-unique>".to_string());
                            outer_lines.push("# </block>".to_string());
                        }
                        let mut text = String::from("# <block keep-unique>\n");
                        let mut offsets = Vec::new();
                        for l in &outer_lines {
                            offsets.push(text.len());
                            text.push_str(l);
                            text.push('\n');
                        }
                        text.push_str("# </block>\n");
                        // brute-force duplicates: outer block over all its lines, inner blocks over theirs
                        let mut expected = Vec::new();
                        let first_dup = |range: std::ops::Range<usize>| -> Option<usize> {
                            for i in range.clone() {
                                for j in range.start..i {
                                    if outer_lines[i] == outer_lines[j] {
                                        return Some(i);
                                    }
                                }
                            }
                            None
                        };
                        if let Some(i) = first_dup(0..outer_lines.len()) {
                            let (line, col) = line_col(&text, offsets[i]);
                            expected.push(Loc { file: "f.py".into(), line, col_start: col, col_end: col + outer_lines[i].len() - 1, key: outer_lines[i].clone() });
                        }
                        if let Some(i) = first_dup(2..2 + inner_lines.len()) {
                            let (line, col) = line_col(&text, offsets[i]);
                            expected.push(Loc { file: "f.py".into(), line, col_start: col, col_end: col + outer_lines[i].len() - 1, key: outer_lines[i].clone() });
                        }
                        let context = context_of_files(&parsers, &[("f.py", &text)]).unwrap();
                        let observed = KeepUniqueValidator::new().validate(context);
                        cases += 1;
                        if !agrees_all(&Some(expected.clone()), &observed, "keep-unique", &[("f.py", &text)]) {
                            cex_fail(
                                "V2",
                                "keep-unique with nested blocks: the outer block's keys are all its non-blank lines, including the inner blocks' tag lines; inner blocks are judged on their own",
                                json!({"files": [{"file_name": "f.py", "file_text": text}]}),
                                locs_json(&Some(expected)),
                                outcome_json(&observed),
                            );
                        }
                    }
                }
            }
        }
        // (e) an uncompilable regex is an error on a block with content (C13), silent on an empty block.
        for (text, expect_err) in [
            ("# <block keep-unique=\"(\">\na\n# </block>\n", true),
            ("# <block keep-unique=\"[a-\">\n\n# </block>\n", true),
            ("/* <block keep-unique=\"(\"> *//* </block> */\n", false),
        ] {
            let name = if text.starts_with('#') { "f.py" } else { "f.rs" };
            let context = context_of(&parsers, name, text).unwrap();
            let observed = KeepUniqueValidator::new().validate(context);
            cases += 1;
            if observed.is_err() != expect_err {
                cex_fail(
                    "V2",
                    "keep-unique: an uncompilable regex is an error exactly when the block has content",
                    json!({"file_name": name, "file_text": text}),
                    if expect_err { json!({"error": "any"}) } else { json!({"violations": []}) },
                    outcome_json(&observed),
                );
            }
        }
        // (f) longer random blocks.
        let mut rng = Lcg::from_env();
        for _ in 0..1500 {
            let len = 6 + rng.next(12) as usize;
            let seq: Vec<Sym> = (0..len).map(|_| TRIM_ALPHABET[rng.next(8) as usize]).collect();
            run_case(&parsers, rng.next(LAYOUTS as u64) as usize, Mode::Trim, rng.next(2) == 0, &seq, &mut cases);
        }
        cex_none(
            "V2",
            cases,
            "no regex: all sequences of <=5 lines over {a,b,'  a','a  ','','   ',ab,A}; group regex and plain regex: all sequences of <=4 lines over 7 annotated lines (keys differing only outside the group/match, non-matching, blank); empty-match patterns `(?P<value>z*)` and `z*` (key = leading run of z, possibly empty - duplicates of the empty key; blank lines have no key): all sequences of <=3 lines over {zb,a,zza,'','   ',z,b,zz,' zb'}, and <=2 lines in the layouts where content begins on the tag's line / the end tag shares the last line; 6 comment layouts x sequences of <=3 (no regex) / <=2 (regex) lines; all pairs of sibling blocks and of one-block files with <=2 lines over {a,b,'  a',''}; 48 nested arrangements; 3 malformed-regex cases; 1500 random blocks of 6..=17 lines",
        );
    }
}
