
// ---------------------------------------------------------------------------------------------
// verif_cex: process-level differential harness for src/main.rs
// unit: V8 (process_violations)    (see /verif/cex/README.md, /verif/cex/MAP.json)
// This text is appended verbatim to a scratch copy of src/main.rs.
//
// NOTE: main.rs belongs to the BINARY target, so this harness runs with
//     cargo test --offline --bin blockwatch verif_cex -- --nocapture
// (not with `--lib`). `process_violations` ends the process with `exit(1)`, so every case runs in
// a child process: the test re-executes its own test binary with VERIF_CEX_V8_CHILD set.
// ---------------------------------------------------------------------------------------------
#[cfg(test)]
#[allow(unused_imports, dead_code, clippy::all)]
mod verif_cex {
    use super::*;
    use serde_json::{Value, json};
    use std::path::Path;

    fn cex_fail(unit: &str, what: &str, input: Value, expected: Value, observed: Value) -> ! {
        println!(
            "VERIF-CEX {}",
            json!({"unit": unit, "what": what, "input": input, "expected": expected, "observed": observed})
        );
        panic!("counterexample for unit {unit}: {what}");
    }

    fn cex_none(unit: &str, cases: u64, bound: &str) {
        println!(
            "VERIF-CEX-NONE {}",
            json!({"unit": unit, "cases": cases, "bound": bound})
        );
    }

    struct MemFs(HashMap<PathBuf, String>);

    impl blocks::FileSystem for MemFs {
        fn read_to_string(&self, path: &Path) -> anyhow::Result<String> {
            self.0
                .get(path)
                .cloned()
                .ok_or_else(|| anyhow::anyhow!("no such file"))
        }

        fn walk(&self) -> impl Iterator<Item = anyhow::Result<PathBuf>> {
            self.0.keys().map(|p| Ok(p.clone()))
        }
    }

    /// A file name of a spec: `%XX` stands for the byte XX, so that names that are NOT valid Unicode can be
    /// written in a (Unicode) spec string: `caf%E9.py` is the Latin-1 spelling of `café.py`.
    fn path_of(name: &str) -> PathBuf {
        let b = name.as_bytes();
        let mut bytes: Vec<u8> = Vec::new();
        let mut i = 0;
        while i < b.len() {
            if b[i] == b'%' && i + 2 < b.len() {
                bytes.push(u8::from_str_radix(&name[i + 1..i + 3], 16).unwrap());
                i += 3;
            } else {
                bytes.push(b[i]);
                i += 1;
            }
        }
        #[cfg(unix)]
        {
            use std::os::unix::ffi::OsStringExt;
            PathBuf::from(std::ffi::OsString::from_vec(bytes))
        }
        #[cfg(not(unix))]
        {
            PathBuf::from(String::from_utf8_lossy(&bytes).to_string())
        }
    }

    /// The member name a file's diagnostics are printed under: a JSON member name is a string, so the path is
    /// shown as text; bytes that are not valid UTF-8 show as U+FFFD (C11: "mapping each ... file path to its list").
    fn printed_name(name: &str) -> String {
        path_of(name).to_string_lossy().to_string()
    }

    struct AllowAll;

    impl blocks::PathChecker for AllowAll {
        fn should_allow(&self, _path: &Path) -> bool {
            true
        }

        fn should_ignore(&self, _path: &Path) -> bool {
            false
        }
    }

    /// spec = files separated by ';', each `name:sev,sev,...`; one violating line-count block per severity.
    fn files_of(spec: &str) -> Vec<(String, String, Vec<String>)> {
        spec.split(';')
            .map(|f| {
                let (name, sevs) = f.split_once(':').unwrap();
                let sevs: Vec<String> = sevs.split(',').map(|s| s.to_string()).collect();
                let mut text = String::new();
                for s in &sevs {
                    if s == "default" {
                        text.push_str("# <block line-count=\"<1\">\nx\n# </block>\n");
                    } else {
                        text.push_str(&format!("# <block line-count=\"<1\" severity=\"{s}\">\nx\n# </block>\n"));
                    }
                }
                (name.to_string(), text, sevs)
            })
            .collect()
    }

    fn child(spec: &str) {
        let files = files_of(spec);
        let fs = MemFs(files.iter().map(|(n, t, _)| (path_of(n), t.clone())).collect());
        let blocks = blocks::parse_blocks(
            HashMap::new(),
            true,
            &fs,
            &AllowAll,
            language_parsers::language_parsers().unwrap(),
            HashMap::new(),
        )
        .unwrap();
        let context = validators::ValidationContext::new(blocks);
        let (sync, asyncs) = validators::detect_validators(
            &context,
            validators::DETECTOR_FACTORIES,
            &std::collections::HashSet::new(),
            &std::collections::HashSet::new(),
        )
        .unwrap();
        let violations = validators::run(Arc::new(context), sync, asyncs).unwrap();
        eprintln!("VERIF-CEX-V8-BEGIN");
        // exits the process with status 1 when an error-severity diagnostic is present
        process_violations(violations).unwrap();
        eprintln!("VERIF-CEX-V8-RETURNED");
    }

    fn severity_number(s: &str) -> u64 {
        match s.to_ascii_lowercase().as_str() {
            "default" | "error" => 1,
            "warning" => 2,
            "info" => 3,
            "hint" => 4,
            _ => unreachable!(),
        }
    }

    #[test]
    fn cex_V8() {
        if let Ok(spec) = std::env::var("VERIF_CEX_V8_CHILD") {
            child(&spec);
            return;
        }
        let exe = std::env::current_exe().unwrap();
        let sevs = ["error", "warning", "info", "hint"];
        let mut specs: Vec<String> = Vec::new();
        // every sequence of 1..=3 severities in ONE file (order matters for "last one wins" slips)
        let mut seqs: Vec<Vec<&str>> = sevs.iter().map(|s| vec![*s]).collect();
        let mut layer = seqs.clone();
        for _ in 0..2 {
            let mut next = Vec::new();
            for s in &layer {
                for x in sevs {
                    let mut t = s.clone();
                    t.push(x);
                    next.push(t);
                }
            }
            seqs.extend(next.iter().cloned());
            layer = next;
        }
        for s in &seqs {
            specs.push(format!("a.py:{}", s.join(",")));
        }
        // two files: every pair of severities, and pairs of two-element lists
        for a in sevs {
            for b in sevs {
                specs.push(format!("a.py:{a};dir/b.py:{b}"));
                specs.push(format!("a.py:{a},{b};dir/b.py:{b},{a}"));
            }
        }
        // default severity and other letter cases
        for s in ["default", "default,warning", "warning,default", "WARNING", "Info,HINT", "Error,hint", "hint,ERROR"] {
            specs.push(format!("a.py:{s}"));
        }
        // file names that are NOT valid Unicode (Unix; `%XX` = one byte): the name of a file never decides the exit
        // status (warning-only => 0), the key is the name with U+FFFD for the bad bytes, nothing is lost
        #[cfg(unix)]
        {
            for s in ["warning", "hint,info", "info,warning,hint", "error", "warning,error"] {
                specs.push(format!("caf%E9.py:{s}"));
                specs.push(format!("a.py:{s};d%FF/b%FE.py:warning"));
                specs.push(format!("a.py:warning;d%FF/b%FE.py:{s}"));
            }
            // two different names with the SAME printable text: both lists stand under the one key, each
            // diagnostic exactly once
            for (a, b) in [("warning", "info"), ("warning", "error"), ("hint,hint", "warning"), ("info", "info")] {
                specs.push(format!("caf%E9.py:{a};caf%E8.py:{b}"));
                specs.push(format!("caf%E9.py:{a};caf%E8.py:{b};a.py:hint"));
            }
        }
        let mut cases = 0u64;
        for spec in &specs {
            let out = std::process::Command::new(&exe)
                .args(["--exact", "verif_cex::cex_V8", "--nocapture", "--test-threads", "1"])
                .env("VERIF_CEX_V8_CHILD", spec)
                .output()
                .unwrap();
            cases += 1;
            let files = files_of(spec);
            let input = json!({"files": files.iter().map(|(n, t, _)| json!({"file_name": n, "file_name_note": "%XX = the byte XX (names that are not valid Unicode)", "file_text": t})).collect::<Vec<_>>()});
            let stderr = String::from_utf8_lossy(&out.stderr).to_string();
            let any_error = files.iter().any(|(_, _, sevs)| sevs.iter().any(|s| severity_number(s) == 1));
            // ---- exit status (C11): 1 exactly when at least one diagnostic has severity error ----
            let code = out.status.code();
            let expected_code = if any_error { 1 } else { 0 };
            if code != Some(expected_code) {
                cex_fail(
                    "V8",
                    "process_violations: the process exits 1 exactly when at least one diagnostic has severity error",
                    input,
                    json!({"exit_status": expected_code}),
                    json!({"exit_status": code, "stderr": stderr}),
                );
            }
            // ---- report: one JSON object, every violation exactly once under its file ----
            let after = stderr.split("VERIF-CEX-V8-BEGIN").nth(1).unwrap_or("");
            let body = after.split("VERIF-CEX-V8-RETURNED").next().unwrap_or("");
            let (Some(open), Some(close)) = (body.find('{'), body.rfind('}')) else {
                cex_fail("V8", "process_violations must print one JSON object to stderr", input, json!("a JSON object"), json!({"stderr": stderr}));
            };
            let report: Value = match serde_json::from_str(&body[open..=close]) {
                Ok(v) => v,
                Err(e) => cex_fail("V8", "process_violations must print one JSON object to stderr", input, json!("a JSON object"), json!({"stderr": stderr, "parse_error": e.to_string()})),
            };
            // per printed name: the diagnostics of EVERY file printed under that name (two names that are not valid
            // Unicode may print alike), each exactly once
            let mut by_name: std::collections::BTreeMap<String, Vec<u64>> = std::collections::BTreeMap::new();
            for (n, _, sevs) in &files {
                by_name.entry(printed_name(n)).or_default().extend(sevs.iter().map(|s| severity_number(s)));
            }
            let mut expected_report: Vec<(String, Vec<u64>)> = by_name
                .into_iter()
                .map(|(n, mut v)| {
                    v.sort();
                    (n, v)
                })
                .collect();
            expected_report.sort();
            let mut observed_report: Vec<(String, Vec<u64>)> = report
                .as_object()
                .map(|o| {
                    o.iter()
                        .map(|(k, v)| {
                            let mut s: Vec<u64> = v
                                .as_array()
                                .map(|a| a.iter().map(|d| if d["code"] == "line-count" { d["severity"].as_u64().unwrap_or(0) } else { 99 }).collect())
                                .unwrap_or_default();
                            s.sort();
                            (k.clone(), s)
                        })
                        .collect()
                })
                .unwrap_or_default();
            observed_report.sort();
            if expected_report != observed_report {
                cex_fail(
                    "V8",
                    "the report maps each file to its diagnostics; every violation appears exactly once with its numeric severity (1 error, 2 warning, 3 info, 4 hint)",
                    input,
                    json!(expected_report),
                    json!({"report": report}),
                );
            }
        }
        cex_none(
            "V8",
            cases,
            "child processes running process_violations on real line-count violations: every sequence of 1..=3 severities over {error,warning,info,hint} in one file, 32 two-file mixes, default severity and upper/mixed-case spellings; (Unix) file and directory names that are not valid Unicode x 5 severity lists x 3 layouts, and 8 pairs of names with the same lossy text",
        );
    }
}
