
// ---------------------------------------------------------------------------------------------
// verif_cex: process-level differential harness for src/main.rs
// unit: V8 (process_violations)    (see /verif/cex/README.md, /verif/cex/MAP.json)
// This text is appended verbatim to a scratch copy of src/main.rs.
//
// NOTE: main.rs belongs to the BINARY target, so this harness runs with
//     cargo test --offline --bin blockwatch verif_cex -- --nocapture
// (not with `--lib`). `process_violations` ends the process with `exit(1)`, so every case runs in
// a child process: the test re-executes its own test binary with VERIF_CEX_V8_CHILD set.
// ---------------------------------------------------------------------------------------------
#[cfg(test)]
#[allow(unused_imports, dead_code, clippy::all)]
mod verif_cex {
    use super::*;
    use serde_json::{Value, json};
    use std::path::Path;

    fn cex_fail(unit: &str, what: &str, input: Value, expected: Value, observed: Value) -> ! {
        println!(
            "VERIF-CEX {}",
            json!({"unit": unit, "what": what, "input": input, "expected": expected, "observed": observed})
        );
        panic!("counterexample for unit {unit}: {what}");
    }

    fn cex_none(unit: &str, cases: u64, bound: &str) {
        println!(
            "VERIF-CEX-NONE {}",
            json!({"unit": unit, "cases": cases, "bound": bound})
        );
    }

    struct MemFs(HashMap<String, String>);

    impl blocks::FileSystem for MemFs {
        fn read_to_string(&self, path: &Path) -> anyhow::Result<String> {
            self.0
                .get(&path.display().to_string())
                .cloned()
                .ok_or_else(|| anyhow::anyhow!("no such file"))
        }

        fn walk(&self) -> impl Iterator<Item = anyhow::Result<PathBuf>> {
            self.0.keys().map(|p| Ok(PathBuf::from(p)))
        }
    }

    struct AllowAll;

    impl blocks::PathChecker for AllowAll {
        fn should_allow(&self, _path: &Path) -> bool {
            true
        }

        fn should_ignore(&self, _path: &Path) -> bool {
            false
        }
    }

    /// spec = files separated by ';', each `name:sev,sev,...`; one violating line-count block per severity.
    fn files_of(spec: &str) -> Vec<(String, String, Vec<String>)> {
        spec.split(';')
            .map(|f| {
                let (name, sevs) = f.split_once(':').unwrap();
                let sevs: Vec<String> = sevs.split(',').map(|s| s.to_string()).collect();
                let mut text = String::new();
                for s in &sevs {
                    if s == "default" {
                        text.push_str("# <block line-count=\"<1\">\nx\n# </block>\n");
                    } else {
                        text.push_str(&format!("# <block line-count=\"<1\" severity=\"{s}\">\nx\n# </block>\n"));
                    }
                }
                (name.to_string(), text, sevs)
            })
            .collect()
    }

    fn child(spec: &str) {
        let files = files_of(spec);
        let fs = MemFs(files.iter().map(|(n, t, _)| (n.clone(), t.clone())).collect());
        let blocks = blocks::parse_blocks(
            HashMap::new(),
            true,
            &fs,
            &AllowAll,
            language_parsers::language_parsers().unwrap(),
            HashMap::new(),
        )
        .unwrap();
        let context = validators::ValidationContext::new(blocks);
        let (sync, asyncs) = validators::detect_validators(
            &context,
            validators::DETECTOR_FACTORIES,
            &std::collections::HashSet::new(),
            &std::collections::HashSet::new(),
        )
        .unwrap();
        let violations = validators::run(Arc::new(context), sync, asyncs).unwrap();
        eprintln!("VERIF-CEX-V8-BEGIN");
        // exits the process with status 1 when an error-severity diagnostic is present
        process_violations(violations).unwrap();
        eprintln!("VERIF-CEX-V8-RETURNED");
    }

    fn severity_number(s: &str) -> u64 {
        match s.to_ascii_lowercase().as_str() {
            "default" | "error" => 1,
            "warning" => 2,
            "info" => 3,
            "hint" => 4,
            _ => unreachable!(),
        }
    }

    #[test]
    fn cex_V8() {
        if let Ok(spec) = std::env::var("VERIF_CEX_V8_CHILD") {
            child(&spec);
            return;
        }
        let exe = std::env::current_exe().unwrap();
        let sevs = ["error", "warning", "info", "hint"];
        let mut specs: Vec<String> = Vec::new();
        // every sequence of 1..=3 severities in ONE file (order matters for "last one wins" slips)
        let mut seqs: Vec<Vec<&str>> = sevs.iter().map(|s| vec![*s]).collect();
        let mut layer = seqs.clone();
        for _ in 0..2 {
            let mut next = Vec::new();
            for s in &layer {
                for x in sevs {
                    let mut t = s.clone();
                    t.push(x);
                    next.push(t);
                }
            }
            seqs.extend(next.iter().cloned());
            layer = next;
        }
        for s in &seqs {
            specs.push(format!("a.py:{}", s.join(",")));
        }
        // two files: every pair of severities, and pairs of two-element lists
        for a in sevs {
            for b in sevs {
                specs.push(format!("a.py:{a};dir/b.py:{b}"));
                specs.push(format!("a.py:{a},{b};dir/b.py:{b},{a}"));
            }
        }
        // default severity and other letter cases
        for s in ["default", "default,warning", "warning,default", "WARNING", "Info,HINT", "Error,hint", "hint,ERROR"] {
            specs.push(format!("a.py:{s}"));
        }
        let mut cases = 0u64;
        for spec in &specs {
            let out = std::process::Command::new(&exe)
                .args(["--exact", "verif_cex::cex_V8", "--nocapture", "--test-threads", "1"])
                .env("VERIF_CEX_V8_CHILD", spec)
                .output()
                .unwrap();
            cases += 1;
            let files = files_of(spec);
            let input = json!({"files": files.iter().map(|(n, t, _)| json!({"file_name": n, "file_text": t})).collect::<Vec<_>>()});
            let stderr = String::from_utf8_lossy(&out.stderr).to_string();
            let any_error = files.iter().any(|(_, _, sevs)| sevs.iter().any(|s| severity_number(s) == 1));
            // ---- exit status (C11): 1 exactly when at least one diagnostic has severity error ----
            let code = out.status.code();
            let expected_code = if any_error { 1 } else { 0 };
            if code != Some(expected_code) {
                cex_fail(
                    "V8",
                    "process_violations: the process exits 1 exactly when at least one diagnostic has severity error",
                    input,
                    json!({"exit_status": expected_code}),
                    json!({"exit_status": code, "stderr": stderr}),
                );
            }
            // ---- report: one JSON object, every violation exactly once under its file ----
            let after = stderr.split("VERIF-CEX-V8-BEGIN").nth(1).unwrap_or("");
            let body = after.split("VERIF-CEX-V8-RETURNED").next().unwrap_or("");
            let (Some(open), Some(close)) = (body.find('{'), body.rfind('}')) else {
                cex_fail("V8", "process_violations must print one JSON object to stderr", input, json!("a JSON object"), json!({"stderr": stderr}));
            };
            let report: Value = match serde_json::from_str(&body[open..=close]) {
                Ok(v) => v,
                Err(e) => cex_fail("V8", "process_violations must print one JSON object to stderr", input, json!("a JSON object"), json!({"stderr": stderr, "parse_error": e.to_string()})),
            };
            let mut expected_report: Vec<(String, Vec<u64>)> = files
                .iter()
                .map(|(n, _, sevs)| {
                    let mut v: Vec<u64> = sevs.iter().map(|s| severity_number(s)).collect();
                    v.sort();
                    (n.clone(), v)
                })
                .collect();
            expected_report.sort();
            let mut observed_report: Vec<(String, Vec<u64>)> = report
                .as_object()
                .map(|o| {
                    o.iter()
                        .map(|(k, v)| {
                            let mut s: Vec<u64> = v
                                .as_array()
                                .map(|a| a.iter().map(|d| if d["code"] == "line-count" { d["severity"].as_u64().unwrap_or(0) } else { 99 }).collect())
                                .unwrap_or_default();
                            s.sort();
                            (k.clone(), s)
                        })
                        .collect()
                })
                .unwrap_or_default();
            observed_report.sort();
            if expected_report != observed_report {
                cex_fail(
                    "V8",
                    "the report maps each file to its diagnostics; every violation appears exactly once with its numeric severity (1 error, 2 warning, 3 info, 4 hint)",
                    input,
                    json!(expected_report),
                    json!({"report": report}),
                );
            }
        }
        cex_none(
            "V8",
            cases,
            "child processes running process_violations on real line-count violations: every sequence of 1..=3 severities over {error,warning,info,hint} in one file, 32 two-file mixes, default severity and upper/mixed-case spellings",
        );
    }
}
