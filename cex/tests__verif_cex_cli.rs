// ---------------------------------------------------------------------------------------------
// verif_cex: PROCESS-level differential harness for the wiring in `main` (src/main.rs)
// unit: M1 (aliases M2, A1, FS1)   (see /verif/cex/README.md, /verif/cex/MAP.json)
//
// This file is copied to tests/verif_cex_cli.rs of a scratch copy and run with
//     cargo test --offline --test verif_cex_cli -- cex_M1 --nocapture
// It runs the REAL binary (CARGO_BIN_EXE_blockwatch) inside throw-away repositories built under
// a temp dir and compares exit status, stderr (diagnostics JSON) and stdout (`list` JSON) with an
// oracle computed from the repository description - properties C15, C11, C02, C14, C16, C12, C20.
// Only existing (dev-)dependencies are used: tempfile, serde_json.
// ---------------------------------------------------------------------------------------------
#![allow(dead_code, non_snake_case, clippy::all)]

use serde_json::{Value, json};
use std::collections::BTreeSet;
use std::io::Write;
use std::path::{Path, PathBuf};
use std::process::{Command, Stdio};

fn cex_fail(unit: &str, what: &str, input: Value, expected: Value, observed: Value) -> ! {
    println!(
        "VERIF-CEX {}",
        json!({"unit": unit, "what": what, "input": input, "expected": expected, "observed": observed})
    );
    panic!("counterexample for unit {unit}: {what}");
}

fn cex_none(unit: &str, cases: u64, bound: &str) {
    println!("VERIF-CEX-NONE {}", json!({"unit": unit, "cases": cases, "bound": bound}));
}

// ---------------------------------------------------------------------------------------------
// The throw-away repository, described with its ground truth
// ---------------------------------------------------------------------------------------------

#[derive(Clone, Debug)]
struct Diag {
    code: &'static str,
    line: u64,
    character: u64,
    severity: u64,
}

#[derive(Clone, Debug)]
struct BlockSpec {
    name: &'static str,
    /// line / column of the start tag's `<`
    tag_line: u64,
    tag_column: u64,
    /// last line of the block (the end tag's line)
    end_line: u64,
    diags: Vec<Diag>,
}

#[derive(Clone, Debug)]
struct FileSpec {
    path: &'static str,
    text: String,
    /// None: the name maps to no grammar; Some(""): built-in; Some("cxx"): only with `-E cxx=cpp`
    grammar: Option<&'static str>,
    hidden: bool,
    blocks: Vec<BlockSpec>,
}

fn py_block(name: &str, attrs: &str, lines: &[&str]) -> String {
    format!("# <block name=\"{name}\"{attrs}>\n{}\n# </block>\n", lines.join("\n"))
}

fn ks(line: u64, severity: u64) -> Diag {
    Diag { code: "keep-sorted", line, character: 1, severity }
}

fn repository() -> Vec<FileSpec> {
    let simple = |path: &'static str, name: &'static str, attrs: &str, sorted: bool, severity: u64, hidden: bool| FileSpec {
        path,
        text: py_block(name, attrs, if sorted { &["a", "b"] } else { &["b", "a"] }),
        grammar: Some(""),
        hidden,
        blocks: vec![BlockSpec { name, tag_line: 1, tag_column: 3, end_line: 4, diags: if sorted { vec![] } else { vec![ks(3, severity)] } }],
    };
    vec![
        simple("sorted.py", "s1", " keep-sorted", true, 1, false),
        simple("unsorted.py", "u1", " keep-sorted", false, 1, false),
        simple("warn.py", "w1", " keep-sorted severity=\"warning\"", false, 2, false),
        FileSpec {
            path: "src/lib.rs",
            text: "// <block name=\"r1\" keep-sorted>\nfn b() {}\nfn a() {}\n// </block>\nfn middle() {}\nfn middle2() {}\nfn middle3() {}\n// <block name=\"r2\" line-count=\"<2\" keep-sorted>\nfn c() {}\nfn d() {}\n// </block>\n".to_string(),
            grammar: Some(""),
            hidden: false,
            blocks: vec![
                BlockSpec { name: "r1", tag_line: 1, tag_column: 4, end_line: 4, diags: vec![ks(3, 1)] },
                BlockSpec { name: "r2", tag_line: 8, tag_column: 4, end_line: 11, diags: vec![Diag { code: "line-count", line: 8, character: 4, severity: 1 }] },
            ],
        },
        FileSpec {
            path: "src/deep/ok.rs",
            text: "// <block name=\"d1\" keep-sorted>\nfn a() {}\nfn b() {}\n// </block>\n".to_string(),
            grammar: Some(""),
            hidden: false,
            blocks: vec![BlockSpec { name: "d1", tag_line: 1, tag_column: 4, end_line: 4, diags: vec![] }],
        },
        // no grammar for this name: never examined, although its tags do not even balance
        FileSpec { path: "notes.txt", text: "# <block name=\"t1\" keep-sorted>\nb\na\n".to_string(), grammar: None, hidden: false, blocks: vec![] },
        simple("x.py", "x0", " keep-sorted", true, 1, false),
        simple("b/x.py", "bx", " keep-sorted", true, 1, false),
        simple("b/b/x.py", "bbx", " keep-sorted", false, 1, false),
        simple("gen/generated.py", "g1", " keep-sorted", false, 1, false),
        FileSpec {
            path: "x.cxx",
            text: "// <block name=\"c1\" keep-sorted>\nint b;\nint a;\n// </block>\n".to_string(),
            grammar: Some("cxx"),
            hidden: false,
            blocks: vec![BlockSpec { name: "c1", tag_line: 1, tag_column: 4, end_line: 4, diags: vec![ks(3, 1)] }],
        },
        simple(".hidden.py", "h1", " keep-sorted", false, 1, true),
        simple("nested/inner.py", "n1", " keep-sorted", false, 1, false),
        simple("sub/in_sub.py", "i1", " keep-sorted", true, 1, false),
    ]
}

fn create_repository(root: &Path, files: &[FileSpec], reverse: bool, with_broken: bool) {
    std::fs::create_dir_all(root.join(".git")).unwrap();
    let mut order: Vec<&FileSpec> = files.iter().collect();
    if reverse {
        order.reverse();
    }
    for f in order {
        let p = root.join(f.path);
        std::fs::create_dir_all(p.parent().unwrap()).unwrap();
        std::fs::write(&p, &f.text).unwrap();
    }
    // a nested directory with its own repository marker, and the directory the run may start from
    std::fs::create_dir_all(root.join("nested/.hg")).unwrap();
    std::fs::create_dir_all(root.join("sub/deeper")).unwrap();
    if with_broken {
        std::fs::write(root.join("broken.py"), "# <block name=\"never-closed\" keep-sorted>\nb\na\n").unwrap();
    }
}

// ---------------------------------------------------------------------------------------------
// Globs (documented forms only), each with a hand-written matcher on root-relative paths
// ---------------------------------------------------------------------------------------------

#[derive(Clone, Copy)]
struct Glob {
    text: &'static str,
    matches: fn(&str) -> bool,
}

const G_UNSORTED: Glob = Glob { text: "unsorted.py", matches: |p| p == "unsorted.py" };
const G_SORTED: Glob = Glob { text: "sorted.py", matches: |p| p == "sorted.py" };
const G_SRC: Glob = Glob { text: "src/**", matches: |p| p.starts_with("src/") };
const G_ANY_X: Glob = Glob { text: "**/x.py", matches: |p| p == "x.py" || p.ends_with("/x.py") };
const G_ANY_RS: Glob = Glob { text: "**/*.rs", matches: |p| p.ends_with(".rs") };
const G_NOTES: Glob = Glob { text: "notes.txt", matches: |p| p == "notes.txt" };
const G_GEN: Glob = Glob { text: "gen/**", matches: |p| p.starts_with("gen/") };
const G_CXX: Glob = Glob { text: "x.cxx", matches: |p| p == "x.cxx" };
const G_HIDDEN: Glob = Glob { text: ".hidden.py", matches: |p| p == ".hidden.py" };
const G_WARN: Glob = Glob { text: "warn.py", matches: |p| p == "warn.py" };
const G_B_DIR: Glob = Glob { text: "b/**", matches: |p| p.starts_with("b/") };

// ---------------------------------------------------------------------------------------------
// Invocation and oracle
// ---------------------------------------------------------------------------------------------

#[derive(Clone)]
struct DiffSpec {
    name: &'static str,
    /// (repository path, changed new-file lines)
    files: Vec<(&'static str, Vec<u64>)>,
}

#[derive(Clone)]
struct Invocation {
    /// BLOCKWATCH_TERMINAL_MODE=1 (no diff on stdin) or a diff piped to stdin
    diff: Option<DiffSpec>,
    globs: Vec<Glob>,
    ignore: Vec<Glob>,
    disable: Vec<&'static str>,
    enable: Vec<&'static str>,
    extension: Option<&'static str>,
    list: bool,
    from_sub_dir: bool,
    /// start directory relative to the repository root (overrides `from_sub_dir`)
    start_in: Option<&'static str>,
    /// free text describing what surrounds the repository (nested-repository scenarios)
    note: Option<String>,
}

fn diff_text(files: &[FileSpec], spec: &DiffSpec) -> String {
    let mut out = String::new();
    for (path, lines) in &spec.files {
        let file = files.iter().find(|f| f.path == *path).unwrap();
        let text_lines: Vec<&str> = file.text.lines().collect();
        // exactly what git writes: `a/<path>` and `b/<path>`
        out.push_str(&format!("diff --git a/{path} b/{path}\nindex 1111111..2222222 100644\n--- a/{path}\n+++ b/{path}\n"));
        for l in lines {
            out.push_str(&format!("@@ -{},0 +{} @@\n+{}\n", l - 1, l, text_lines[(*l - 1) as usize]));
        }
    }
    out
}

/// (file, code, line, character, severity)
type DiagKey = (String, String, u64, u64, u64);
/// (file, name, line, column)
type ListKey = (String, String, u64, u64);

struct Expected {
    /// None: the invocation must be rejected (non-zero status, no report)
    diags: Option<BTreeSet<DiagKey>>,
    listing: BTreeSet<ListKey>,
}

fn expected_of(files: &[FileSpec], inv: &Invocation) -> Expected {
    // C14 / C16: rejected before anything is validated
    if (!inv.disable.is_empty() && !inv.enable.is_empty()) || inv.extension == Some("cxx=nope") {
        return Expected { diags: None, listing: BTreeSet::new() };
    }
    let terminal = inv.diff.is_none();
    let mut diags = BTreeSet::new();
    let mut listing = BTreeSet::new();
    for f in files {
        // ---- C15: scope ----
        if inv.ignore.iter().any(|g| (g.matches)(f.path)) {
            continue; // --ignore wins over both
        }
        let scanned = !f.hidden && if inv.globs.is_empty() { terminal } else { inv.globs.iter().any(|g| (g.matches)(f.path)) };
        let changed: Option<&Vec<u64>> = inv.diff.as_ref().and_then(|d| d.files.iter().find(|(p, _)| *p == f.path).map(|(_, l)| l));
        if !scanned && changed.is_none() {
            continue;
        }
        // ---- C16: grammar by file name ----
        let has_grammar = match f.grammar {
            None => false,
            Some("") => true,
            Some(_) => inv.extension == Some("cxx=cpp"),
        };
        if !has_grammar {
            continue;
        }
        for b in &f.blocks {
            // ---- C02: a scanned file contributes every block, a diff-only file its touched blocks ----
            let touched = changed.is_some_and(|ls| ls.iter().any(|l| b.tag_line <= *l && *l <= b.end_line));
            if !(scanned || touched) {
                continue;
            }
            listing.insert((f.path.to_string(), b.name.to_string(), b.tag_line, b.tag_column));
            for d in &b.diags {
                // ---- C14: --enable keeps exactly these, --disable removes exactly these ----
                let kept = if !inv.enable.is_empty() { inv.enable.contains(&d.code) } else { !inv.disable.contains(&d.code) };
                if kept {
                    diags.insert((f.path.to_string(), d.code.to_string(), d.line, d.character, d.severity));
                }
            }
        }
    }
    Expected { diags: Some(diags), listing }
}

struct Observed {
    status: Option<i32>,
    stdout: String,
    stderr: String,
}

fn run(root: &Path, files: &[FileSpec], inv: &Invocation) -> (Vec<String>, Observed) {
    let mut args: Vec<String> = Vec::new();
    for d in &inv.disable {
        args.push("-d".into());
        args.push(d.to_string());
    }
    for e in &inv.enable {
        args.push("-e".into());
        args.push(e.to_string());
    }
    if let Some(x) = inv.extension {
        args.push("-E".into());
        args.push(x.into());
    }
    for g in &inv.ignore {
        args.push("--ignore".into());
        args.push(g.text.into());
    }
    if inv.list {
        args.push("list".into());
    }
    for g in &inv.globs {
        args.push(g.text.into());
    }
    let mut cmd = Command::new(env!("CARGO_BIN_EXE_blockwatch"));
    cmd.args(&args)
        .current_dir(match inv.start_in {
            Some(d) => root.join(d),
            None if inv.from_sub_dir => root.join("sub"),
            None => root.to_path_buf(),
        })
        .env_remove("BLOCKWATCH_TERMINAL_MODE")
        .stdin(Stdio::piped())
        .stdout(Stdio::piped())
        .stderr(Stdio::piped());
    if inv.diff.is_none() {
        cmd.env("BLOCKWATCH_TERMINAL_MODE", "1");
    }
    let mut child = cmd.spawn().unwrap();
    {
        let mut stdin = child.stdin.take().unwrap();
        if let Some(d) = &inv.diff {
            let _ = stdin.write_all(diff_text(files, d).as_bytes());
        }
    }
    let out = child.wait_with_output().unwrap();
    (
        args,
        Observed {
            status: out.status.code(),
            stdout: String::from_utf8_lossy(&out.stdout).to_string(),
            stderr: String::from_utf8_lossy(&out.stderr).to_string(),
        },
    )
}

fn describe(files: &[FileSpec], inv: &Invocation, args: &[String], with_broken: bool) -> Value {
    json!({
        "argv": args,
        "started_in": match inv.start_in { Some(d) => format!("<root>/{d}"), None if inv.from_sub_dir => "<root>/sub".to_string(), None => "<root>".to_string() },
        "surroundings": inv.note,
        "stdin": match &inv.diff { None => json!("none; BLOCKWATCH_TERMINAL_MODE=1"), Some(d) => json!({"diff_name": d.name, "diff_text": diff_text(files, d)}) },
        "repository": {
            "directories_only": [".git/", "nested/.hg/", "sub/deeper/"],
            "files": files.iter().map(|f| json!({"path": f.path, "file_text": f.text})).chain(
                if with_broken { vec![json!({"path": "broken.py", "file_text": "# <block name=\"never-closed\" keep-sorted>\nb\na\n"})] } else { vec![] }
            ).collect::<Vec<_>>(),
        },
    })
}

fn parse_diags(stderr: &str) -> Option<BTreeSet<DiagKey>> {
    if stderr.trim().is_empty() {
        return Some(BTreeSet::new());
    }
    let v: Value = serde_json::from_str(stderr).ok()?;
    let mut set = BTreeSet::new();
    let mut count = 0usize;
    for (file, list) in v.as_object()? {
        for d in list.as_array()? {
            count += 1;
            set.insert((
                file.clone(),
                d["code"].as_str()?.to_string(),
                d["range"]["start"]["line"].as_u64()?,
                d["range"]["start"]["character"].as_u64()?,
                d["severity"].as_u64()?,
            ));
        }
    }
    // a duplicated diagnostic would collapse in the set: every violation exactly once
    if count != set.len() {
        return None;
    }
    Some(set)
}

fn parse_listing(stdout: &str) -> Option<BTreeSet<ListKey>> {
    let v: Value = serde_json::from_str(stdout).ok()?;
    let mut set = BTreeSet::new();
    let mut count = 0usize;
    for (file, list) in v.as_object()? {
        for b in list.as_array()? {
            count += 1;
            set.insert((file.clone(), b["name"].as_str()?.to_string(), b["line"].as_u64()?, b["column"].as_u64()?));
        }
    }
    if count != set.len() {
        return None;
    }
    Some(set)
}

fn diag_json(s: &BTreeSet<DiagKey>) -> Value {
    json!(s.iter().map(|(f, c, l, ch, sev)| json!({"file": f, "code": c, "line": l, "character": ch, "severity": sev})).collect::<Vec<_>>())
}

fn list_json(s: &BTreeSet<ListKey>) -> Value {
    json!(s.iter().map(|(f, n, l, c)| json!({"file": f, "name": n, "line": l, "column": c})).collect::<Vec<_>>())
}

/// Runs one invocation and compares with the oracle. Returns a canonical result for the determinism check.
fn check(root: &Path, files: &[FileSpec], inv: &Invocation, with_broken: bool, cases: &mut u64) -> (Option<i32>, Option<BTreeSet<DiagKey>>, Option<BTreeSet<ListKey>>) {
    let expected = expected_of(files, inv);
    let (args, obs) = run(root, files, inv);
    *cases += 1;
    let input = describe(files, inv, &args, with_broken);
    let observed_json = |o: &Observed| json!({"exit_status": o.status, "stdout": o.stdout, "stderr": o.stderr});
    match &expected.diags {
        None => {
            // rejected up front: non-zero status, no report, no file of the repository named
            let named_a_file = obs.stderr.contains("broken.py") || obs.stderr.contains("unsorted.py");
            if obs.status == Some(0) || obs.status.is_none() || parse_diags(&obs.stderr).is_some_and(|d| !d.is_empty()) || named_a_file || (inv.list && !obs.stdout.trim().is_empty()) {
                cex_fail(
                    "M1",
                    "using --enable together with --disable, or mapping an extension onto an unsupported grammar, is rejected with a non-zero status before anything is validated or listed",
                    input,
                    json!({"exit_status": "non-zero", "stderr": "an explanatory error that is not a report and names no repository file", "stdout": ""}),
                    observed_json(&obs),
                );
            }
            (obs.status, None, None)
        }
        Some(exp_diags) if inv.list => {
            // C11: `list` prints the selected blocks as one JSON object on stdout and exits 0
            let listing = parse_listing(&obs.stdout);
            if obs.status != Some(0) || listing.as_ref() != Some(&expected.listing) || !obs.stderr.trim().is_empty() {
                cex_fail(
                    "M1",
                    "`list` prints exactly the blocks a validation run with the same scope would examine, as one JSON object on stdout, and exits 0 even when those blocks have violations",
                    input,
                    json!({"exit_status": 0, "stdout_blocks": list_json(&expected.listing), "stderr": "", "note": format!("{} violations exist in this scope", exp_diags.len())}),
                    observed_json(&obs),
                );
            }
            (obs.status, None, listing)
        }
        Some(exp_diags) => {
            let any_error = exp_diags.iter().any(|d| d.4 == 1);
            let diags = parse_diags(&obs.stderr);
            let status_ok = obs.status == Some(if any_error { 1 } else { 0 });
            if !status_ok || diags.as_ref() != Some(exp_diags) || !obs.stdout.trim().is_empty() {
                cex_fail(
                    "M1",
                    "a validation run reports exactly the diagnostics of the files in scope (globs / terminal mode / diff, minus --ignore, through -d/-e/-E), each once, as one JSON object on stderr (nothing when there are none) and exits 1 iff one of them has severity error",
                    input,
                    json!({"exit_status": if any_error { 1 } else { 0 }, "stderr_diagnostics": diag_json(exp_diags), "stdout": ""}),
                    observed_json(&obs),
                );
            }
            (obs.status, diags, None)
        }
    }
}

#[test]
fn cex_M1() {
    let files = repository();
    let tmp = tempfile::tempdir().unwrap();
    let base = tmp.path().canonicalize().unwrap();
    let repo_a = base.join("repo_a");
    let repo_b = base.join("repo_b");
    let repo_broken = base.join("repo_broken");
    create_repository(&repo_a, &files, false, false);
    create_repository(&repo_b, &files, true, false);
    create_repository(&repo_broken, &files, false, true);

    let plain = Invocation { diff: None, globs: vec![], ignore: vec![], disable: vec![], enable: vec![], extension: None, list: false, from_sub_dir: false, start_in: None, note: None };
    let mut invocations: Vec<Invocation> = Vec::new();

    // ---- (1) terminal mode: no args / positional globs / --ignore / -d -e -E, from the root and from a sub-directory ----
    let glob_sets: Vec<Vec<Glob>> = vec![vec![], vec![G_UNSORTED], vec![G_SRC], vec![G_ANY_X], vec![G_ANY_RS, G_SORTED], vec![G_NOTES], vec![G_GEN, G_WARN], vec![G_HIDDEN, G_SORTED]];
    let ignore_sets: Vec<Vec<Glob>> = vec![vec![], vec![G_GEN], vec![G_ANY_X, G_UNSORTED], vec![G_SRC, G_B_DIR]];
    type Flags = (Vec<&'static str>, Vec<&'static str>, Option<&'static str>);
    let flag_sets: Vec<Flags> = vec![(vec![], vec![], None), (vec!["keep-sorted"], vec![], None), (vec![], vec!["line-count"], None), (vec![], vec![], Some("cxx=cpp"))];
    let mut k = 0usize;
    for globs in &glob_sets {
        for ignore in &ignore_sets {
            for (disable, enable, extension) in &flag_sets {
                k += 1;
                invocations.push(Invocation { globs: globs.clone(), ignore: ignore.clone(), disable: disable.clone(), enable: enable.clone(), extension: *extension, from_sub_dir: k % 2 == 0, ..plain.clone() });
            }
            // (4) the same scope through `list`
            k += 1;
            invocations.push(Invocation { globs: globs.clone(), ignore: ignore.clone(), list: true, from_sub_dir: k % 2 == 0, ..plain.clone() });
        }
    }
    // every glob set from both start directories with no other flag
    for globs in &glob_sets {
        for from_sub_dir in [false, true] {
            invocations.push(Invocation { globs: globs.clone(), from_sub_dir, ..plain.clone() });
        }
    }
    // (5) -E: x.cxx is parsed only with the mapping; repeated flags compose as union
    invocations.push(Invocation { globs: vec![G_CXX], ..plain.clone() });
    invocations.push(Invocation { globs: vec![G_CXX], extension: Some("cxx=cpp"), ..plain.clone() });
    invocations.push(Invocation { globs: vec![G_CXX], extension: Some("cxx=cpp"), list: true, from_sub_dir: true, ..plain.clone() });
    invocations.push(Invocation { disable: vec!["keep-sorted", "line-count"], ..plain.clone() });
    invocations.push(Invocation { enable: vec!["keep-sorted", "line-count"], from_sub_dir: true, ..plain.clone() });
    invocations.push(Invocation { enable: vec!["affects"], ..plain.clone() });
    // rejected up front - in a scope WITHOUT violations (so only the rejection can make the status non-zero)
    invocations.push(Invocation { globs: vec![G_SORTED], disable: vec!["keep-sorted"], enable: vec!["line-count"], ..plain.clone() });
    invocations.push(Invocation { globs: vec![G_SORTED], disable: vec!["line-count"], enable: vec!["line-count"], list: true, ..plain.clone() });
    invocations.push(Invocation { globs: vec![G_SORTED], extension: Some("cxx=nope"), ..plain.clone() });
    invocations.push(Invocation { globs: vec![G_SORTED], extension: Some("cxx=nope"), list: true, from_sub_dir: true, ..plain.clone() });

    // ---- (2) a diff on stdin ----
    let d = |name: &'static str, files: Vec<(&'static str, Vec<u64>)>| DiffSpec { name, files };
    let diffs = vec![
        d("content of the unsorted block", vec![("unsorted.py", vec![3])]),
        d("content of a sorted block", vec![("sorted.py", vec![3])]),
        d("file under b/b/ (git writes b/b/b/x.py)", vec![("b/b/x.py", vec![3])]),
        d("file under b/ (git writes b/b/x.py)", vec![("b/x.py", vec![2])]),
        d("file without a grammar", vec![("notes.txt", vec![2])]),
        d("file matched by an ignore glob", vec![("gen/generated.py", vec![3])]),
        d("hidden file", vec![(".hidden.py", vec![3])]),
        d("code between the two blocks of src/lib.rs", vec![("src/lib.rs", vec![6])]),
        d("second block of src/lib.rs only", vec![("src/lib.rs", vec![9])]),
        d("three files", vec![("unsorted.py", vec![3]), ("src/lib.rs", vec![2, 9]), ("warn.py", vec![3])]),
        d("warning only", vec![("warn.py", vec![2])]),
        d("empty diff", vec![]),
    ];
    let diff_globs: Vec<Vec<Glob>> = vec![vec![], vec![G_SRC], vec![G_UNSORTED, G_ANY_X]];
    let diff_ignores: Vec<Vec<Glob>> = vec![vec![], vec![G_GEN, G_B_DIR]];
    for diff in &diffs {
        for globs in &diff_globs {
            for ignore in &diff_ignores {
                k += 1;
                invocations.push(Invocation { diff: Some(diff.clone()), globs: globs.clone(), ignore: ignore.clone(), from_sub_dir: k % 2 == 0, ..plain.clone() });
            }
        }
        invocations.push(Invocation { diff: Some(diff.clone()), from_sub_dir: true, ..plain.clone() });
        invocations.push(Invocation { diff: Some(diff.clone()), list: true, ..plain.clone() });
        invocations.push(Invocation { diff: Some(diff.clone()), globs: vec![G_SRC], list: true, from_sub_dir: true, ..plain.clone() });
    }
    invocations.push(Invocation { diff: Some(diffs[9].clone()), disable: vec!["keep-sorted"], ..plain.clone() });
    invocations.push(Invocation { diff: Some(diffs[9].clone()), enable: vec!["line-count"], from_sub_dir: true, ..plain.clone() });

    // ---- run: alternate between the two repositories (files created in opposite orders);
    //      (6) every 4th invocation runs three times on A and once on B and must agree with itself ----
    let mut cases = 0u64;
    for (i, inv) in invocations.iter().enumerate() {
        let root = if i % 2 == 0 { &repo_a } else { &repo_b };
        let first = check(root, &files, inv, false, &mut cases);
        if i % 4 == 0 {
            for again in [&repo_a, &repo_a, &repo_b] {
                let other = check(again, &files, inv, false, &mut cases);
                if other != first {
                    cex_fail(
                        "M1",
                        "same files, diff and options => same exit status and same set of diagnostics / listed blocks, whatever the run and the order in which the files were created",
                        describe(&files, inv, &[], false),
                        json!({"exit_status": first.0, "diagnostics": first.1.as_ref().map(diag_json), "listing": first.2.as_ref().map(list_json)}),
                        json!({"exit_status": other.0, "diagnostics": other.1.as_ref().map(diag_json), "listing": other.2.as_ref().map(list_json)}),
                    );
                }
            }
        }
    }

    // ---- a repository with an unbalanced file in scope ----
    // the flag errors win: rejected before any file is examined
    for inv in [
        Invocation { disable: vec!["keep-sorted"], enable: vec!["line-count"], ..plain.clone() },
        Invocation { disable: vec!["keep-sorted"], enable: vec!["line-count"], from_sub_dir: true, list: true, ..plain.clone() },
        Invocation { extension: Some("cxx=nope"), ..plain.clone() },
    ] {
        check(&repo_broken, &files, &inv, true, &mut cases);
    }
    // C12: without the flag error the unbalanced file fails the run (non-zero, names the file) - also for `list`;
    // out of scope (not matched / ignored) it is not even looked at
    for (inv, broken_in_scope) in [
        (plain.clone(), true),
        (Invocation { list: true, from_sub_dir: true, ..plain.clone() }, true),
        (Invocation { globs: vec![G_SORTED], ..plain.clone() }, false),
        (Invocation { ignore: vec![Glob { text: "broken.py", matches: |p| p == "broken.py" }], ..plain.clone() }, false),
    ] {
        if broken_in_scope {
            let (args, obs) = run(&repo_broken, &files, &inv);
            cases += 1;
            if obs.status == Some(0) || obs.status.is_none() || !obs.stderr.contains("broken.py") {
                cex_fail(
                    "M1",
                    "a file in scope whose block tags do not balance makes the whole run fail with a non-zero status and an error naming that file",
                    describe(&files, &inv, &args, true),
                    json!({"exit_status": "non-zero", "stderr": "names broken.py"}),
                    json!({"exit_status": obs.status, "stdout": obs.stdout, "stderr": obs.stderr}),
                );
            }
        } else {
            check(&repo_broken, &files, &inv, true, &mut cases);
        }
    }

    // ---- runs STARTED INSIDE a nested repository (C15: the root is the NEAREST ancestor - the start
    //      directory included - that has a `.git` or `.hg` directory) ----
    // (a) inner/.git inside an outer tree whose root has .hg (and no .git); (b) the mirror image.
    // A same-named file exists in both trees, clean in one and violating in the other: only the
    // inner repository's files are examined, with paths relative to inner/.
    for (scenario, outer_marker, inner_marker) in [("a", ".hg", ".git"), ("b", ".git", ".hg")] {
        for inner_x_violates in [false, true] {
            let simple = |path: &'static str, name: &'static str, sorted: bool| FileSpec {
                path,
                text: py_block(name, " keep-sorted", if sorted { &["a", "b"] } else { &["b", "a"] }),
                grammar: Some(""),
                hidden: false,
                blocks: vec![BlockSpec { name, tag_line: 1, tag_column: 3, end_line: 4, diags: if sorted { vec![] } else { vec![ks(3, 1)] } }],
            };
            let inner_files = vec![simple("src/x.py", "inner_x", !inner_x_violates), simple("only_inner.py", "oi", inner_x_violates), simple("src/deep/y.py", "iy", true)];
            let outer_files = vec![simple("src/x.py", "outer_x", inner_x_violates), simple("top.py", "ot", false), simple("only_inner.py", "outer_oi", !inner_x_violates)];
            let outer = base.join(format!("nested_{scenario}_{inner_x_violates}"));
            std::fs::create_dir_all(outer.join(outer_marker)).unwrap();
            for f in &outer_files {
                let p = outer.join(f.path);
                std::fs::create_dir_all(p.parent().unwrap()).unwrap();
                std::fs::write(&p, &f.text).unwrap();
            }
            let inner = outer.join("inner");
            std::fs::create_dir_all(inner.join(inner_marker)).unwrap();
            for f in &inner_files {
                let p = inner.join(f.path);
                std::fs::create_dir_all(p.parent().unwrap()).unwrap();
                std::fs::write(&p, &f.text).unwrap();
            }
            let note = Some(format!(
                "<root> is `inner/` (has a {inner_marker} directory) inside an outer tree whose top has a {outer_marker} directory and these files: {}",
                outer_files.iter().map(|f| format!("{} = {:?}", f.path, f.text)).collect::<Vec<_>>().join("; ")
            ));
            let x_diff = DiffSpec { name: "b/src/x.py", files: vec![("src/x.py", vec![3])] };
            for start_in in [None, Some("src"), Some("src/deep")] {
                let nested_plain = Invocation { start_in, note: note.clone(), ..plain.clone() };
                for inv in [
                    nested_plain.clone(),
                    Invocation { globs: vec![G_SRC], ..nested_plain.clone() },
                    Invocation { list: true, ..nested_plain.clone() },
                    Invocation { globs: vec![G_SRC], list: true, ..nested_plain.clone() },
                    Invocation { diff: Some(x_diff.clone()), ..nested_plain.clone() },
                    Invocation { diff: Some(x_diff.clone()), list: true, ..nested_plain.clone() },
                    Invocation { diff: Some(x_diff.clone()), globs: vec![Glob { text: "only_inner.py", matches: |p| p == "only_inner.py" }], ..nested_plain.clone() },
                ] {
                    check(&inner, &inner_files, &inv, false, &mut cases);
                }
            }
        }
    }

    // ---- file names that are NOT valid Unicode (Unix) ----
    // C11: the exit status is decided by the severities alone ("warning|info|hint ... never fail the run"; "`list` ...
    // exits 0"), and the report is ONE JSON object "mapping each root-relative file path to its list": a member name is
    // a string, so such a path shows with U+FFFD for its bad bytes; every diagnostic / block appears exactly once - also
    // when two different names show alike.
    #[cfg(unix)]
    {
        use std::ffi::OsStr;
        use std::os::unix::ffi::OsStrExt;
        let block = |name: &str, attrs: &str| py_block(name, attrs, &["b", "a"]);
        // (bytes of the root-relative path, block name, attributes, severity of its one keep-sorted diagnostic or 0 = sorted)
        type RawFile = (&'static [u8], &'static str, &'static str, u64);
        let scenarios: Vec<(&str, Vec<RawFile>)> = vec![
            ("a warning-only file whose name is Latin-1", vec![(b"caf\xe9.py", "w1", " keep-sorted severity=\"warning\"", 2), (b"ok.py", "o1", " keep-sorted severity=\"hint\"", 4)]),
            ("two names that show alike (caf\\xe9.py, caf\\xe8.py), warning and info", vec![(b"caf\xe9.py", "w1", " keep-sorted severity=\"warning\"", 2), (b"caf\xe8.py", "w2", " keep-sorted severity=\"info\"", 3)]),
            ("an error-severity file in a directory, both names not Unicode", vec![(b"d\xff/err\xfe.py", "e1", " keep-sorted", 1), (b"caf\xe9.py", "w1", " keep-sorted severity=\"warning\"", 2)]),
        ];
        for (si, (what, raw_files)) in scenarios.iter().enumerate() {
            let root = base.join(format!("repo_raw_{si}"));
            std::fs::create_dir_all(root.join(".git")).unwrap();
            for (bytes, name, attrs, _) in raw_files {
                let p = root.join(Path::new(OsStr::from_bytes(bytes)));
                std::fs::create_dir_all(p.parent().unwrap()).unwrap();
                std::fs::write(&p, block(name, attrs)).unwrap();
            }
            let shown = |bytes: &[u8]| String::from_utf8_lossy(bytes).to_string();
            let exp_diags: BTreeSet<DiagKey> = raw_files.iter().filter(|f| f.3 != 0).map(|f| (shown(f.0), "keep-sorted".to_string(), 3, 1, f.3)).collect();
            let exp_listing: BTreeSet<ListKey> = raw_files.iter().map(|f| (shown(f.0), f.1.to_string(), 1, 3)).collect();
            let any_error = raw_files.iter().any(|f| f.3 == 1);
            let input = |args: &[String]| {
                json!({
                    "argv": args,
                    "started_in": "<root>",
                    "stdin": "none; BLOCKWATCH_TERMINAL_MODE=1",
                    "scenario": what,
                    "repository": {"directories_only": [".git/"], "files": raw_files.iter().map(|f| json!({"path_bytes": f.0, "path_shown": shown(f.0), "file_text": block(f.1, f.2)})).collect::<Vec<_>>()},
                })
            };
            for list in [false, true] {
                let inv = Invocation { list, ..plain.clone() };
                let (args, obs) = run(&root, &[], &inv);
                cases += 1;
                let observed = json!({"exit_status": obs.status, "stdout": obs.stdout, "stderr": obs.stderr});
                if list {
                    if obs.status != Some(0) || parse_listing(&obs.stdout).as_ref() != Some(&exp_listing) || !obs.stderr.trim().is_empty() {
                        cex_fail(
                            "M1",
                            "`list` prints the selected blocks as one JSON object on stdout and exits 0 - whatever the names of the files are (a name that is not valid Unicode shows with U+FFFD; every block exactly once)",
                            input(&args),
                            json!({"exit_status": 0, "stdout_blocks": list_json(&exp_listing), "stderr": ""}),
                            observed,
                        );
                    }
                } else if obs.status != Some(if any_error { 1 } else { 0 }) || parse_diags(&obs.stderr).as_ref() != Some(&exp_diags) || !obs.stdout.trim().is_empty() {
                    cex_fail(
                        "M1",
                        "a validation run exits 1 exactly when a diagnostic has severity error (warnings never fail the run) and prints every diagnostic exactly once in one JSON object on stderr - whatever the names of the files are (a name that is not valid Unicode shows with U+FFFD)",
                        input(&args),
                        json!({"exit_status": if any_error { 1 } else { 0 }, "stderr_diagnostics": diag_json(&exp_diags), "stdout": ""}),
                        observed,
                    );
                }
            }
        }
    }

    cex_none(
        "M1",
        cases,
        "real binary in throw-away repositories (14 files: sorted / unsorted / warning-only keep-sorted blocks in python and rust, two rules on one block, sub-directories, a name without a grammar holding unbalanced tags, directories b/ and b/b/, a file only an ignore glob matches, x.cxx, a hidden file, a nested directory with its own .hg, a sub-directory to start from): terminal mode x 8 glob sets x 4 ignore sets x {no flag, -d keep-sorted, -e line-count, -E cxx=cpp, list}; 12 diffs x 3 glob sets x 2 ignore sets (+ list); flag rejections; start directory root / sub-directory alternating; two repositories with opposite file creation order alternating; every 4th invocation 3 + 1 times; a repository with an unbalanced file; runs started inside a nested repository (inner .git under an outer .hg tree and the mirror image; start = inner/, inner/src/, inner/src/deep/; a same-named file clean in one tree and violating in the other; scan, list and diff naming b/src/x.py); (Unix) three repositories whose file / directory names are not valid Unicode: warning-only, two names with the same lossy text, error severity - validation run and `list` each",
    );
}
