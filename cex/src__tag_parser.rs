
// ---------------------------------------------------------------------------------------------
// verif_cex: small-scope exhaustive differential harness for src/tag_parser.rs
// unit: T3 (WinnowBlockTagParser::next)   (see /verif/cex/README.md, /verif/cex/MAP.json)
// This text is appended verbatim to a scratch copy of src/tag_parser.rs.
// ---------------------------------------------------------------------------------------------
#[cfg(test)]
#[allow(unused_imports, dead_code, clippy::all)]
mod verif_cex {
    use super::*;
    use serde_json::{Value, json};

    fn cex_fail(unit: &str, what: &str, input: Value, expected: Value, observed: Value) -> ! {
        println!(
            "VERIF-CEX {}",
            json!({"unit": unit, "what": what, "input": input, "expected": expected, "observed": observed})
        );
        panic!("counterexample for unit {unit}: {what}");
    }

    fn cex_none(unit: &str, cases: u64, bound: &str) {
        println!(
            "VERIF-CEX-NONE {}",
            json!({"unit": unit, "cases": cases, "bound": bound})
        );
    }

    // ----------------------------------------------------------------------------------------
    // Reference scanner, written from C05 - a hand-rolled cursor over chars, no parser library.
    //   start tag : `<block` { blank+ name [ blank* `=` blank* value ] } blank* `>`
    //   name      : letters (any script) / digits / `-` / `_`, at least one
    //   value     : "..." (anything but `"`) | '...' (anything but `'`) | bare name-like word
    //   end tag   : `<` blank* `/` blank* `block` blank* `>`
    //   blank     : space, tab, CR, LF
    // Look-alikes (`<blockquote>`, `<block/>`, `<Block>`, `< block>`, a start tag whose quote is
    // never closed) are not tags. Duplicate attribute: the last one wins.
    // ----------------------------------------------------------------------------------------

    #[derive(Debug, Clone, PartialEq)]
    enum RefTag {
        Start { start: usize, end: usize, attributes: Vec<(String, String)> },
        End { start: usize },
    }

    struct Cur<'a> {
        s: &'a str,
        at: usize,
    }

    impl<'a> Cur<'a> {
        fn peek(&self) -> Option<char> {
            self.s[self.at..].chars().next()
        }
        fn eat(&mut self, lit: &str) -> bool {
            if self.s[self.at..].starts_with(lit) {
                self.at += lit.len();
                true
            } else {
                false
            }
        }
        fn blanks(&mut self) -> usize {
            let from = self.at;
            while let Some(c) = self.peek() {
                if c == ' ' || c == '\t' || c == '\r' || c == '\n' {
                    self.at += 1;
                } else {
                    break;
                }
            }
            self.at - from
        }
        fn word(&mut self) -> Option<&'a str> {
            let from = self.at;
            while let Some(c) = self.peek() {
                if c.is_alphanumeric() || c == '-' || c == '_' {
                    self.at += c.len_utf8();
                } else {
                    break;
                }
            }
            if self.at > from { Some(&self.s[from..self.at]) } else { None }
        }
        fn quoted(&mut self, q: char) -> Option<&'a str> {
            let save = self.at;
            if self.peek() != Some(q) {
                return None;
            }
            self.at += 1;
            let from = self.at;
            match self.s[from..].find(q) {
                Some(p) => {
                    self.at = from + p + 1;
                    Some(&self.s[from..from + p])
                }
                None => {
                    self.at = save;
                    None
                }
            }
        }
    }

    fn ref_start_tag(s: &str, at: usize) -> Option<(usize, Vec<(String, String)>)> {
        let mut c = Cur { s, at };
        if !c.eat("<block") {
            return None;
        }
        let mut attributes: Vec<(String, String)> = Vec::new();
        loop {
            let before_blanks = c.at;
            if c.blanks() == 0 {
                break;
            }
            let Some(name) = c.word() else {
                c.at = before_blanks;
                break;
            };
            let after_name = c.at;
            c.blanks();
            let mut value: Option<&str> = None;
            if c.eat("=") {
                c.blanks();
                value = c.quoted('"').or_else(|| c.quoted('\'')).or_else(|| c.word());
            }
            if value.is_none() {
                c.at = after_name; // a bare attribute
            }
            attributes.retain(|(k, _)| k != name);
            attributes.push((name.to_string(), value.unwrap_or("").to_string()));
        }
        c.blanks();
        if !c.eat(">") {
            return None;
        }
        attributes.sort();
        Some((c.at, attributes))
    }

    fn ref_end_tag(s: &str, at: usize) -> Option<usize> {
        let mut c = Cur { s, at };
        if !c.eat("<") {
            return None;
        }
        c.blanks();
        if !c.eat("/") {
            return None;
        }
        c.blanks();
        if !c.eat("block") {
            return None;
        }
        c.blanks();
        if !c.eat(">") {
            return None;
        }
        Some(c.at)
    }

    fn ref_scan(s: &str) -> Vec<RefTag> {
        let mut out = Vec::new();
        let mut pos = 0;
        while let Some(p) = s[pos..].find('<') {
            let at = pos + p;
            if let Some((end, attributes)) = ref_start_tag(s, at) {
                out.push(RefTag::Start { start: at, end, attributes });
                pos = end;
            } else if let Some(end) = ref_end_tag(s, at) {
                out.push(RefTag::End { start: at });
                pos = end;
            } else {
                pos = at + 1;
            }
        }
        out
    }

    fn observed_scan(s: &str) -> Result<Vec<RefTag>, String> {
        let mut out = Vec::new();
        let mut cursor = 0usize;
        // the way block_parser drives it: a fresh parser per call, resumed at the saved cursor
        for _ in 0..(s.len() + 2) {
            let mut p = WinnowBlockTagParser::new(s, cursor);
            match p.next() {
                Err(e) => return Err(e.to_string()),
                Ok(None) => return Ok(out),
                Ok(Some(BlockTag::Start { tag_range, attributes })) => {
                    let mut attributes: Vec<(String, String)> = attributes.into_iter().collect();
                    attributes.sort();
                    out.push(RefTag::Start { start: tag_range.start, end: tag_range.end, attributes });
                }
                Ok(Some(BlockTag::End { start_position })) => out.push(RefTag::End { start: start_position }),
            }
            if p.cursor() <= cursor {
                return Err(format!("cursor did not advance: {} -> {}", cursor, p.cursor()));
            }
            cursor = p.cursor();
        }
        Err("more tags than bytes".to_string())
    }

    fn tags_json(v: &[RefTag]) -> Value {
        json!(v
            .iter()
            .map(|t| match t {
                RefTag::Start { start, end, attributes } => json!({"kind": "start", "start": start, "end_exclusive": end, "attributes": attributes}),
                RefTag::End { start } => json!({"kind": "end", "start": start}),
            })
            .collect::<Vec<_>>())
    }

    fn check(text: &str, cases: &mut u64) {
        let expected = ref_scan(text);
        let observed = observed_scan(text);
        *cases += 1;
        if observed.as_ref().ok() != Some(&expected) {
            cex_fail(
                "T3",
                "WinnowBlockTagParser::next: the sequence of (kind, start position, end, attributes) must be exactly the block tags written in the comment text - look-alikes and half-written tags are skipped, wherever the tag sits (also at the very end of the text)",
                json!({"comment_text": text}),
                tags_json(&expected),
                match &observed {
                    Ok(v) => tags_json(v),
                    Err(e) => json!({"error": e}),
                },
            );
        }
    }

    #[test]
    fn cex_T3() {
        let tokens: [&str; 25] = [
            "<block>",
            "<block a=\"1\">",
            "</block>",
            "</ block >",
            "<blockquote>",
            "<block/>",
            "< block>",
            "<",
            " ",
            "x",
            ">",
            "<block a=\">",
            "\"",
            "\n",
            // ---- the first 14 form the core alphabet ----
            "<block a>",
            "<block a = '1' b=x>",
            "<block\n  k=\"v>w\"\n>",
            "\u{e9}",
            "<Block>",
            "</block",
            "<block a=\"1\" a='2'>",
            "<block n\u{e4}me=\u{3b2}_1 >",
            // look-alikes of the END tag: `block` must be followed by optional blanks and `>` only
            "</blockquote>",
            "</blocks>",
            "</block x>",
        ];
        let mut cases = 0u64;
        let mut text = String::new();
        // every sequence of <= 4 tokens over the 14 core tokens
        let core = 14usize;
        for len in 0..=4u32 {
            for code in 0..core.pow(len) {
                text.clear();
                let mut c = code;
                for _ in 0..len {
                    text.push_str(tokens[c % core]);
                    c /= core;
                }
                check(&text, &mut cases);
            }
        }
        // every sequence of <= 3 tokens over all 25 tokens
        for len in 1..=3u32 {
            for code in 0..tokens.len().pow(len) {
                text.clear();
                let mut c = code;
                let mut uses_extra = false;
                for _ in 0..len {
                    let t = c % tokens.len();
                    uses_extra |= t >= core;
                    text.push_str(tokens[t]);
                    c /= tokens.len();
                }
                if uses_extra {
                    check(&text, &mut cases);
                }
            }
        }
        // tags as the LAST bytes of the text, after every prefix length 0..=9 of filler
        for tag in ["<block>", "</block>", "</ block >", "<block a>", "<block a=\"1\">"] {
            for filler in 0..=9usize {
                for fill in ["x", " ", "<"] {
                    let t = format!("{}{tag}", fill.repeat(filler));
                    check(&t, &mut cases);
                }
            }
        }
        // longer random token soups (seeded from VERIF_SEED)
        let mut x: u64 = std::env::var("VERIF_SEED").ok().and_then(|s| s.parse().ok()).unwrap_or(1u64).wrapping_mul(0x9E3779B97F4A7C15) | 1;
        for _ in 0..20000 {
            text.clear();
            x = x.wrapping_mul(6364136223846793005).wrapping_add(1442695040888963407);
            let n = 5 + ((x >> 33) % 8) as usize;
            for _ in 0..n {
                x = x.wrapping_mul(6364136223846793005).wrapping_add(1442695040888963407);
                text.push_str(tokens[((x >> 33) % tokens.len() as u64) as usize]);
            }
            check(&text, &mut cases);
        }
        cex_none(
            "T3",
            cases,
            "comment texts = every sequence of <=4 tokens over 14 core tokens (<block>, <block a=\"1\">, </block>, </ block >, <blockquote>, <block/>, < block>, stray <, blank, x, >, a start tag with an unclosed quote, a lone quote, newline), every sequence of <=3 tokens over 25 tokens (bare / spaced / multi-line / duplicate / non-ASCII attributes, <Block>, </block without >, the end-tag look-alikes </blockquote> </blocks> </block x>), 150 texts with a tag as the last bytes, 20000 random soups of 5..=12 tokens; driven like block_parser does (fresh parser resumed at the saved cursor)",
        );
    }
}
