
// ---------------------------------------------------------------------------------------------
// verif_cex: small-scope exhaustive differential harnesses for src/validators/keep_sorted.rs
// units: V1 V1d V1cmp V1t V1r      (see /verif/cex/README.md, /verif/cex/MAP.json)
// This text is appended verbatim to a scratch copy of src/validators/keep_sorted.rs.
// ---------------------------------------------------------------------------------------------
#[cfg(test)]
#[allow(unused_imports, dead_code, clippy::all)]
mod verif_cex {
    use super::*;
    use crate::blocks::{Block, BlockWithContext, FileBlocks};
    use crate::validators::{ValidationContext, ValidatorSync, Violation};
    use serde_json::{Value, json};
    use std::collections::HashMap as CexHashMap;
    use std::ffi::OsString;
    use std::path::PathBuf as CexPathBuf;
    use std::sync::Arc as CexArc;

    fn cex_fail(unit: &str, what: &str, input: Value, expected: Value, observed: Value) -> ! {
        println!(
            "VERIF-CEX {}",
            json!({"unit": unit, "what": what, "input": input, "expected": expected, "observed": observed})
        );
        panic!("counterexample for unit {unit}: {what}");
    }

    fn cex_none(unit: &str, cases: u64, bound: &str) {
        println!(
            "VERIF-CEX-NONE {}",
            json!({"unit": unit, "cases": cases, "bound": bound})
        );
    }

    struct Lcg(u64);
    impl Lcg {
        fn from_env() -> Self {
            let seed = std::env::var("VERIF_SEED")
                .ok()
                .and_then(|s| s.parse::<u64>().ok())
                .unwrap_or(1);
            Lcg(seed.wrapping_mul(0x9E3779B97F4A7C15).wrapping_add(0x1234567))
        }
        fn next(&mut self, n: u64) -> u64 {
            self.0 = self.0.wrapping_mul(6364136223846793005).wrapping_add(1442695040888963407);
            (self.0 >> 33) % n
        }
    }

    /// A generated source file with one block; `line_offsets[i]` is the byte offset in `text` at
    /// which the i-th generated content line starts (ground truth by construction).
    struct Built {
        file_name: &'static str,
        text: String,
        line_offsets: Vec<usize>,
        /// byte offsets of the start tag's `<` and `>` in `text`
        tag_lt: usize,
        tag_gt: usize,
    }

    const LAYOUTS: usize = 6;

    fn layout_name(layout: usize) -> &'static str {
        [
            "python: `# <block ..>` / lines / `# </block>`",
            "rust: start tag's block comment continues for two lines after the tag, then lines, `// </block>`",
            "rust: one-line block comment, content starts on the tag's own line, `/* </block> */` on its own line",
            "rust: code before, indented `// <block ..>`, end tag `/* </block> */` shares the last content line",
            "rust: tag on the last line of a three-line block comment, content starts on that line",
            "rust: multi-line start tag (attributes on separate lines) inside a block comment, then lines",
        ][layout]
    }

    /// Builds a file holding one block with the given start-tag attribute text and content lines.
    fn build(layout: usize, attrs: &str, lines: &[&str]) -> Built {
        let sp = if attrs.is_empty() { "" } else { " " };
        let (file_name, head, first_sep, tail): (&'static str, String, &str, &str) = match layout {
            0 => ("f.py", format!("# <block{sp}{attrs}>"), "\n", "\n# </block>\n"),
            1 => ("f.rs", format!("/* <block{sp}{attrs}>\n   note\n   more */"), "\n", "\n// </block>\n"),
            2 => ("f.rs", format!("/* <block{sp}{attrs}> */"), " ", "\n/* </block> */\n"),
            3 => ("f.rs", format!("fn x() {{}}\n\n    // <block{sp}{attrs}>"), "\n", " /* </block> */\nfn y() {}\n"),
            4 => ("f.rs", format!("/*\n note\n  <block{sp}{attrs}> */"), " ", "\n// </block>\n"),
            5 => ("f.rs", format!("  /* <block\n{sp}{}\n> */", attrs.replace("\" ", "\"\n   ")), "\n", "\n  // </block>\n"),
            _ => unreachable!(),
        };
        let tag_lt = head.find("<block").unwrap();
        let tag_gt = head.rfind('>').unwrap();
        let mut text = head;
        let mut line_offsets = Vec::new();
        for (i, l) in lines.iter().enumerate() {
            text.push_str(if i == 0 { first_sep } else { "\n" });
            line_offsets.push(text.len());
            text.push_str(l);
        }
        if lines.is_empty() {
            text.push_str(first_sep);
        }
        text.push_str(tail);
        Built { file_name, text, line_offsets, tag_lt, tag_gt }
    }

    /// Byte offset -> (1-based line, 1-based byte column), by counting newlines in the file text.
    fn line_col(text: &str, byte: usize) -> (usize, usize) {
        let before = &text[..byte];
        let line = before.matches('\n').count() + 1;
        let line_start = before.rfind('\n').map_or(0, |p| p + 1);
        (line, byte - line_start + 1)
    }

    type Parsers = CexHashMap<OsString, crate::language_parsers::LanguageParser>;

    fn parsers() -> Parsers {
        crate::language_parsers::language_parsers().unwrap()
    }

    /// Parses `text` with the grammar registered for the file's extension and wraps every block
    /// (all marked content-modified) into a one-file validation context.
    fn context_of(parsers: &Parsers, file_name: &str, text: &str) -> Result<CexArc<ValidationContext>, String> {
        let ext = file_name.rsplit('.').next().unwrap();
        let parser = parsers.get(&OsString::from(ext)).unwrap();
        let blocks = parser.borrow_mut().parse(text).map_err(|e| e.to_string())?;
        Ok(context_from_blocks(file_name, text, blocks))
    }

    fn context_from_blocks(file_name: &str, text: &str, blocks: Vec<Block>) -> CexArc<ValidationContext> {
        CexArc::new(ValidationContext::new(CexHashMap::from([(
            CexPathBuf::from(file_name),
            FileBlocks {
                file_content: text.to_string(),
                blocks_with_context: blocks
                    .into_iter()
                    .map(|block| BlockWithContext { block, _is_start_tag_modified: false, is_content_modified: true })
                    .collect(),
            },
        )])))
    }

    fn violation_json(v: &Violation) -> Value {
        json!({
            "code": v.code,
            "range": {"start": {"line": v.range.start.line, "character": v.range.start.character},
                      "end": {"line": v.range.end.line, "character": v.range.end.character}},
            "severity": serde_json::to_value(v.severity).unwrap(),
            "data": v.data,
            "message": v.message,
        })
    }

    /// Outcome of a validator run, flattened: Err(message) or the list of (file, violation json).
    fn outcome_json(r: &anyhow::Result<CexHashMap<CexPathBuf, Vec<Violation>>>) -> Value {
        match r {
            Err(e) => json!({"error": e.to_string()}),
            Ok(m) => {
                let mut files: Vec<_> = m.iter().collect();
                files.sort_by(|a, b| a.0.cmp(b.0));
                json!({"violations": files.iter().map(|(f, vs)| json!({"file": f.display().to_string(), "diagnostics": vs.iter().map(violation_json).collect::<Vec<_>>()})).collect::<Vec<_>>()})
            }
        }
    }

    /// Expected outcome of a one-block run for the "designates exactly this text" validators.
    #[derive(Debug, Clone, PartialEq)]
    enum Expect {
        /// No diagnostic.
        Clean,
        /// Exactly one diagnostic whose range is (line, first byte column) ..= (line, last byte column), 1-based.
        At { line: usize, col_start: usize, col_end: usize, key: String },
        /// validate() returns Err.
        Error,
    }

    fn expect_json(e: &Expect) -> Value {
        match e {
            Expect::Clean => json!({"violations": []}),
            Expect::Error => json!({"error": "any"}),
            Expect::At { line, col_start, col_end, key } => json!({"violations": [{"range": {"start": {"line": line, "character": col_start}, "end": {"line": line, "character": col_end}}, "text_at_range": key}]}),
        }
    }

    /// Compares the validator's result with the expectation; `code` is the diagnostic code the
    /// single violation must carry. The range check is C10: the reported 1-based (line, byte
    /// column) pair must delimit exactly the offending key in the file text.
    fn agrees(
        expected: &Expect,
        observed: &anyhow::Result<CexHashMap<CexPathBuf, Vec<Violation>>>,
        code: &str,
        file_name: &str,
        text: &str,
    ) -> bool {
        match (expected, observed) {
            (Expect::Error, Err(_)) => true,
            (Expect::Clean, Ok(m)) => m.values().all(|v| v.is_empty()),
            (Expect::At { line, col_start, col_end, key }, Ok(m)) => {
                let all: Vec<(&CexPathBuf, &Violation)> = m.iter().flat_map(|(f, vs)| vs.iter().map(move |v| (f, v))).collect();
                if all.len() != 1 {
                    return false;
                }
                let (f, v) = all[0];
                if f != &CexPathBuf::from(file_name) || v.code != code {
                    return false;
                }
                if (v.range.start.line, v.range.start.character, v.range.end.line, v.range.end.character)
                    != (*line, *col_start, *line, *col_end)
                {
                    return false;
                }
                // Independent re-check against the file bytes. An EMPTY key occupies no byte: its range
                // is the single column where it was found (start == end >= 1, never column 0, never
                // end < start); a non-empty key's columns slice exactly the key out of the file line.
                if key.is_empty() {
                    return *col_end == *col_start && *col_start >= 1;
                }
                let file_line = text.split('\n').nth(*line - 1).unwrap_or("");
                file_line.as_bytes().get(col_start - 1..*col_end) == Some(key.as_bytes())
            }
            _ => false,
        }
    }

    /// A diagnostic location expected in a multi-block / multi-file run.
    #[derive(Debug, Clone, PartialEq, Eq, PartialOrd, Ord)]
    struct Loc {
        file: String,
        line: usize,
        col_start: usize,
        col_end: usize,
        key: String,
    }

    fn locs_json(locs: &Option<Vec<Loc>>) -> Value {
        match locs {
            None => json!({"error": "any"}),
            Some(v) => json!({"violations": v.iter().map(|l| json!({"file": l.file, "range": {"start": {"line": l.line, "character": l.col_start}, "end": {"line": l.line, "character": l.col_end}}, "text_at_range": l.key})).collect::<Vec<_>>()}),
        }
    }

    /// Multi-block version of `agrees`: `expected` = None for Err, else the exact multiset of
    /// diagnostics (file, line, 1-based inclusive byte columns, text found there).
    fn agrees_all(
        expected: &Option<Vec<Loc>>,
        observed: &anyhow::Result<CexHashMap<CexPathBuf, Vec<Violation>>>,
        code: &str,
        texts: &[(&str, &str)],
    ) -> bool {
        match (expected, observed) {
            (None, Err(_)) => true,
            (Some(exp), Ok(m)) => {
                let mut obs: Vec<(String, usize, usize, usize, usize)> = Vec::new();
                for (f, vs) in m {
                    for v in vs {
                        if v.code != code {
                            return false;
                        }
                        obs.push((f.display().to_string(), v.range.start.line, v.range.start.character, v.range.end.line, v.range.end.character));
                    }
                }
                obs.sort();
                let mut exp_sorted: Vec<(String, usize, usize, usize, usize)> =
                    exp.iter().map(|l| (l.file.clone(), l.line, l.col_start, l.line, l.col_end)).collect();
                exp_sorted.sort();
                if obs != exp_sorted {
                    return false;
                }
                exp.iter().all(|l| {
                    let text = texts.iter().find(|(f, _)| *f == l.file).map(|(_, t)| *t).unwrap_or("");
                    let file_line = text.split('\n').nth(l.line - 1).unwrap_or("");
                    file_line.as_bytes().get(l.col_start - 1..l.col_end) == Some(l.key.as_bytes())
                })
            }
            _ => false,
        }
    }

    /// Several sibling blocks in one python file: `# <block attrs>` / lines / `# </block>` each.
    /// Returns the text and, per block, the byte offsets of its generated content lines.
    fn build_siblings(blocks: &[(&str, Vec<&str>)]) -> (String, Vec<Vec<usize>>) {
        let mut text = String::from("import os\n");
        let mut all = Vec::new();
        for (attrs, lines) in blocks {
            let sp = if attrs.is_empty() { "" } else { " " };
            text.push_str(&format!("# <block{sp}{attrs}>\n"));
            let mut offs = Vec::new();
            for l in lines {
                offs.push(text.len());
                text.push_str(l);
                text.push('\n');
            }
            text.push_str("# </block>\n\n");
            all.push(offs);
        }
        (text, all)
    }

    /// One validation context over several files, every block marked content-modified.
    fn context_of_files(parsers: &Parsers, files: &[(&str, &str)]) -> Result<CexArc<ValidationContext>, String> {
        let mut map = CexHashMap::new();
        for (name, text) in files {
            let ext = name.rsplit('.').next().unwrap();
            let parser = parsers.get(&OsString::from(ext)).unwrap();
            let blocks = parser.borrow_mut().parse(text).map_err(|e| e.to_string())?;
            map.insert(
                CexPathBuf::from(name),
                FileBlocks {
                    file_content: text.to_string(),
                    blocks_with_context: blocks
                        .into_iter()
                        .map(|block| BlockWithContext { block, _is_start_tag_modified: false, is_content_modified: true })
                        .collect(),
                },
            );
        }
        Ok(CexArc::new(ValidationContext::new(map)))
    }

    // ----------------------------------------------------------------------------------------
    // Reference semantics, written from C06 (statement) - not from the validator.
    // ----------------------------------------------------------------------------------------

    /// Code-point order on strings.
    fn ref_lex_cmp(a: &str, b: &str) -> std::cmp::Ordering {
        let (mut x, mut y) = (a.chars(), b.chars());
        loop {
            match (x.next(), y.next()) {
                (None, None) => return std::cmp::Ordering::Equal,
                (None, Some(_)) => return std::cmp::Ordering::Less,
                (Some(_), None) => return std::cmp::Ordering::Greater,
                (Some(p), Some(q)) => {
                    if (p as u32) != (q as u32) {
                        return (p as u32).cmp(&(q as u32));
                    }
                }
            }
        }
    }

    /// Plain decimal numerals `[+-]?digits[.digits]` as exact thousandths; None = not a number.
    fn ref_number(s: &str) -> Option<i128> {
        let (neg, rest) = match s.strip_prefix('-') {
            Some(r) => (true, r),
            None => (false, s.strip_prefix('+').unwrap_or(s)),
        };
        let (int_part, frac_part) = match rest.split_once('.') {
            Some((i, f)) => (i, f),
            None => (rest, ""),
        };
        if int_part.is_empty() && frac_part.is_empty() {
            return None;
        }
        if !int_part.chars().all(|c| c.is_ascii_digit()) || !frac_part.chars().all(|c| c.is_ascii_digit()) {
            return None;
        }
        if frac_part.len() > 3 || int_part.len() > 12 {
            return None; // outside the harness alphabet
        }
        let mut v: i128 = 0;
        for c in int_part.chars() {
            v = v * 10 + (c as u8 - b'0') as i128;
        }
        let mut f: i128 = 0;
        for i in 0..3 {
            f = f * 10 + frac_part.as_bytes().get(i).map_or(0, |c| (c - b'0') as i128);
        }
        let v = v * 1000 + f;
        Some(if neg { -v } else { v })
    }

    #[derive(Clone, Copy, Debug, PartialEq)]
    enum Dir {
        Asc,
        Desc,
    }

    /// C06: "ascending when the value is empty or `asc`, descending for `desc`, any letter case";
    /// DESIGN 6 V1: trimmed-empty => asc; lower-cased value must be exactly asc|desc; else Err.
    fn ref_direction(raw: &str) -> Option<Dir> {
        if raw.chars().all(char::is_whitespace) {
            return Some(Dir::Asc);
        }
        let lower: String = raw.chars().map(|c| c.to_ascii_lowercase()).collect();
        match lower.as_str() {
            "asc" => Some(Dir::Asc),
            "desc" => Some(Dir::Desc),
            _ => None,
        }
    }

    #[derive(Clone, Copy, Debug, PartialEq)]
    enum Fmt {
        Lex,
        Num,
    }

    /// `keep-sorted-format`: absent / blank => lexicographic; lexicographic|numeric in any case; else Err.
    fn ref_format(raw: Option<&str>) -> Option<Fmt> {
        let Some(raw) = raw else { return Some(Fmt::Lex) };
        let t = raw.trim();
        if t.is_empty() {
            return Some(Fmt::Lex);
        }
        let lower: String = t.chars().map(|c| c.to_ascii_lowercase()).collect();
        match lower.as_str() {
            "lexicographic" => Some(Fmt::Lex),
            "numeric" => Some(Fmt::Num),
            _ => None,
        }
    }

    /// One content line with its key per key-extraction mode, as byte spans within the line
    /// (ground truth by annotation, not by running a regex).
    #[derive(Clone, Copy, Debug)]
    struct Sym {
        text: &'static str,
        /// key under `keep-sorted-pattern="k=(?P<value>[^ ]+)"`
        group: Option<(usize, usize)>,
        /// key under `keep-sorted-pattern="-?[0-9][0-9.]*"` (no group: whole match)
        plain: Option<(usize, usize)>,
    }

    const GROUP_PATTERN: &str = "k=(?P<value>[^ ]+)";
    const PLAIN_PATTERN: &str = "-?[0-9][0-9.]*";

    /// Key span when no pattern is given: the line without surrounding whitespace (None when blank).
    fn trimmed_span(line: &str) -> Option<(usize, usize)> {
        let first = line.char_indices().find(|(_, c)| !c.is_whitespace())?.0;
        let (last, ch) = line.char_indices().rev().find(|(_, c)| !c.is_whitespace())?;
        Some((first, last + ch.len_utf8()))
    }

    #[derive(Clone, Copy, Debug, PartialEq)]
    enum Mode {
        Trim,
        Group,
        Plain,
        /// `keep-sorted-pattern="(?P<value>z*)"`: the match can be EMPTY
        EmptyGroup,
    }

    /// A pattern whose match can be empty: every line matches at offset 0 and the key is the leading
    /// run of `z` bytes of the line, possibly "" (C06: "the `value` group ... of each matching
    /// line" - an empty key IS a key). A BLANK line never has a key, whatever the pattern matches.
    const EMPTY_GROUP_PATTERN: &str = "(?P<value>z*)";

    /// ground truth for EMPTY_GROUP_PATTERN by a plain byte scan (no regex)
    fn leading_z_span(line: &str) -> Option<(usize, usize)> {
        if line.chars().all(char::is_whitespace) {
            return None;
        }
        Some((0, line.bytes().take_while(|b| *b == b'z').count()))
    }

    fn key_span(sym: &Sym, mode: Mode) -> Option<(usize, usize)> {
        match mode {
            Mode::Trim => trimmed_span(sym.text),
            Mode::Group => sym.group,
            Mode::Plain => sym.plain,
            Mode::EmptyGroup => leading_z_span(sym.text),
        }
    }

    const fn t(text: &'static str) -> Sym {
        Sym { text, group: None, plain: None }
    }

    /// Alphabet for the no-pattern runs: ordered, equal, prefix-related, differently indented,
    /// blank, trailing-whitespace and numeric-looking lines.
    const TRIM_ALPHABET: [Sym; 12] = [
        t("a"), t("b"), t("ab"), t("  a"), t("b  "), t(""), t("   "), t("2"), t("10"), t("9.5"), t("-3"), t("2.0"),
    ];
    const TRIM_ALPHABET_SMALL: [Sym; 6] = [t("a"), t("b"), t("\ta "), t(""), t("10"), t("B")];

    /// Alphabet for the pattern runs (annotated keys).
    const PATTERN_ALPHABET: [Sym; 12] = [
        Sym { text: "k=a", group: Some((2, 3)), plain: None },
        Sym { text: "k=b", group: Some((2, 3)), plain: None },
        Sym { text: "k=ab", group: Some((2, 4)), plain: None },
        Sym { text: "  k=a", group: Some((4, 5)), plain: None },
        Sym { text: "z k=b w", group: Some((4, 5)), plain: None },
        Sym { text: "nomatch", group: None, plain: None },
        Sym { text: "", group: None, plain: None },
        Sym { text: "k=2", group: Some((2, 3)), plain: Some((2, 3)) },
        Sym { text: "k=10 k=1", group: Some((2, 4)), plain: Some((2, 4)) },
        Sym { text: "k=9.5", group: Some((2, 5)), plain: Some((2, 5)) },
        Sym { text: "\u{e9} k=-3", group: Some((5, 7)), plain: Some((5, 7)) },
        Sym { text: "7 k=10", group: Some((4, 6)), plain: Some((0, 1)) },
    ];

    #[derive(Clone, Debug)]
    struct Config {
        /// raw `keep-sorted` attribute value; None = bare attribute (`<block keep-sorted>`)
        direction: Option<&'static str>,
        mode: Mode,
        /// raw `keep-sorted-format` value
        format: Option<&'static str>,
    }

    impl Config {
        fn attrs(&self) -> String {
            let mut s = match self.direction {
                None => "keep-sorted".to_string(),
                Some(d) => format!("keep-sorted=\"{d}\""),
            };
            match self.mode {
                Mode::Trim => {}
                Mode::Group => s.push_str(&format!(" keep-sorted-pattern=\"{GROUP_PATTERN}\"")),
                Mode::Plain => s.push_str(&format!(" keep-sorted-pattern=\"{PLAIN_PATTERN}\"")),
                Mode::EmptyGroup => s.push_str(&format!(" keep-sorted-pattern=\"{EMPTY_GROUP_PATTERN}\"")),
            }
            if let Some(f) = self.format {
                s.push_str(&format!(" keep-sorted-format=\"{f}\""));
            }
            s
        }
    }

    /// The brute-force oracle for one block.
    fn ref_keep_sorted(config: &Config, syms: &[Sym], built: &Built) -> Expect {
        let Some(dir) = ref_direction(config.direction.unwrap_or("")) else {
            return Expect::Error;
        };
        let Some(fmt) = ref_format(config.format) else {
            return Expect::Error;
        };
        // keys in file order: (absolute byte offset of the key, key text)
        let keys: Vec<(usize, &str)> = syms
            .iter()
            .enumerate()
            .filter_map(|(i, s)| {
                // Where the content begins on the tag's own line the first content line is the separating
                // blank + the generated line; a pattern anchored at the line start (EmptyGroup) then finds
                // the empty key in front of that blank.
                let led_by_blank = i == 0 && built.line_offsets[0] > 0 && built.text.as_bytes()[built.line_offsets[0] - 1] == b' ';
                if config.mode == Mode::EmptyGroup && led_by_blank {
                    return leading_z_span(s.text).map(|_| (built.line_offsets[0] - 1, ""));
                }
                key_span(s, config.mode).map(|(a, b)| (built.line_offsets[i] + a, &s.text[a..b]))
            })
            .collect();
        // C13: "non-numeric keys under numeric sort" are a hard error wherever the key stands (the first
        // or only key included); the scan stops at the first key that is either not a number or out of order.
        if matches!(fmt, Fmt::Num) {
            if let Some((_, first)) = keys.first() {
                if ref_number(first).is_none() {
                    return Expect::Error;
                }
            }
        }
        for w in keys.windows(2) {
            let (prev, cur) = (w[0].1, w[1].1);
            let ord = match fmt {
                Fmt::Lex => ref_lex_cmp(prev, cur),
                Fmt::Num => match (ref_number(prev), ref_number(cur)) {
                    (Some(p), Some(c)) => p.cmp(&c),
                    _ => return Expect::Error,
                },
            };
            let out_of_order = match dir {
                Dir::Asc => ord == std::cmp::Ordering::Greater,
                Dir::Desc => ord == std::cmp::Ordering::Less,
            };
            if out_of_order {
                let (line, col) = line_col(&built.text, w[1].0);
                // C10: the columns delimit the key; an empty key is the single column where it was found
                let col_end = if cur.is_empty() { col } else { col + cur.len() - 1 };
                return Expect::At { line, col_start: col, col_end, key: cur.to_string() };
            }
        }
        Expect::Clean
    }

    fn run_case(
        unit: &str,
        parsers: &Parsers,
        layout: usize,
        config: &Config,
        syms: &[Sym],
        cases: &mut u64,
    ) {
        let lines: Vec<&str> = syms.iter().map(|s| s.text).collect();
        let built = build(layout, &config.attrs(), &lines);
        let input = json!({
            "file_name": built.file_name,
            "file_text": built.text,
            "layout": layout_name(layout),
            "keep-sorted": config.direction,
            "keep-sorted-pattern": match config.mode { Mode::Trim => Value::Null, Mode::Group => json!(GROUP_PATTERN), Mode::Plain => json!(PLAIN_PATTERN), Mode::EmptyGroup => json!(EMPTY_GROUP_PATTERN) },
            "keep-sorted-format": config.format,
            "content_lines": lines,
        });
        let context = match context_of(parsers, built.file_name, &built.text) {
            Ok(c) => c,
            Err(e) => cex_fail(unit, "generated one-block file failed to parse", input, json!("one block"), json!(e)),
        };
        let expected = ref_keep_sorted(config, syms, &built);
        let observed = KeepSortedValidator::new().validate(context);
        *cases += 1;
        if !agrees(&expected, &observed, "keep-sorted", built.file_name, &built.text) {
            cex_fail(
                unit,
                "keep-sorted: expected exactly the first key that is strictly out of order w.r.t. the previous key (none if sorted), reported at the file line / 1-based byte columns that delimit that key",
                input,
                expect_json(&expected),
                outcome_json(&observed),
            );
        }
    }

    /// Fast path for layout 0: the file is parsed ONCE per line sequence (with a bare `keep-sorted`
    /// tag); for every configuration the parsed block is re-labelled with the attributes the tag
    /// parser yields for that configuration's tag (cached). Content lines sit on their own file
    /// lines in layout 0, so their positions do not depend on the tag text. Any disagreement is
    /// re-run through the full path (real text for that configuration) before it is reported.
    struct Fast<'p> {
        parsers: &'p Parsers,
        attr_cache: CexHashMap<String, CexHashMap<String, String>>,
    }

    impl<'p> Fast<'p> {
        fn new(parsers: &'p Parsers) -> Self {
            Self { parsers, attr_cache: CexHashMap::new() }
        }

        fn attributes(&mut self, config: &Config) -> CexHashMap<String, String> {
            let attrs = config.attrs();
            if let Some(a) = self.attr_cache.get(&attrs) {
                return a.clone();
            }
            let built = build(0, &attrs, &[]);
            let context = context_of(self.parsers, built.file_name, &built.text).unwrap();
            let a = context.blocks.values().next().unwrap().blocks_with_context[0].block.attributes.clone();
            self.attr_cache.insert(attrs, a.clone());
            a
        }

        fn run(&mut self, unit: &str, configs: &[Config], syms: &[Sym], cases: &mut u64) {
            let lines: Vec<&str> = syms.iter().map(|s| s.text).collect();
            let built = build(0, "keep-sorted", &lines);
            let parsed = context_of(self.parsers, built.file_name, &built.text);
            let Ok(parsed) = parsed else {
                // report through the full path
                run_case(unit, self.parsers, 0, &configs[0], syms, cases);
                return;
            };
            let block0 = parsed.blocks.values().next().unwrap().blocks_with_context[0].block.clone();
            for config in configs {
                let mut block = block0.clone();
                block.attributes = self.attributes(config);
                let context = context_from_blocks(built.file_name, &built.text, vec![block]);
                let expected = ref_keep_sorted(config, syms, &built);
                let observed = KeepSortedValidator::new().validate(context);
                *cases += 1;
                if !agrees(&expected, &observed, "keep-sorted", built.file_name, &built.text) {
                    let mut dummy = 0u64;
                    run_case(unit, self.parsers, 0, config, syms, &mut dummy);
                    cex_fail(
                        unit,
                        "harness inconsistency: the re-labelled block disagreed with the oracle but the fully parsed file did not",
                        json!({"file_text": built.text, "attributes": config.attrs()}),
                        expect_json(&expected),
                        outcome_json(&observed),
                    );
                }
            }
        }
    }

    fn sequences<'a>(alphabet: &'a [Sym], max_len: usize) -> Vec<Vec<Sym>> {
        let mut out: Vec<Vec<Sym>> = vec![vec![]];
        let mut layer: Vec<Vec<Sym>> = vec![vec![]];
        for _ in 0..max_len {
            let mut next = Vec::new();
            for s in &layer {
                for a in alphabet {
                    let mut t = s.clone();
                    t.push(*a);
                    next.push(t);
                }
            }
            out.extend(next.iter().cloned());
            layer = next;
        }
        out
    }

    const DIRECTIONS: [Option<&str>; 6] = [Some("asc"), Some("desc"), Some(""), Some("ASC"), Some("Desc"), None];

    #[test]
    fn cex_V1() {
        let parsers = parsers();
        let mut cases = 0u64;
        // (a) no pattern: every sequence of <= 4 lines over the 12-line alphabet, <= 5 lines over the
        //     6-line alphabet; x 6 direction spellings x {lexicographic, numeric}; layout 0.
        let mut fast = Fast::new(&parsers);
        let mut trim_configs = Vec::new();
        for direction in DIRECTIONS {
            for format in [None, Some("numeric")] {
                trim_configs.push(Config { direction, mode: Mode::Trim, format });
            }
        }
        for (alphabet, max_len) in [(&TRIM_ALPHABET[..], 4usize), (&TRIM_ALPHABET_SMALL[..], 5usize)] {
            for seq in sequences(alphabet, max_len) {
                fast.run("V1", &trim_configs, &seq, &mut cases);
            }
        }
        // (b) patterns (each case compiles a regex, ~1 ms in a debug build, hence the smaller scope):
        //     every sequence of <= 2 lines over the annotated 12-line alphabet x {group, plain} x
        //     {asc, desc, ASC} x {lexicographic, numeric}; every sequence of <= 3 lines over 9 of
        //     them x 6 configurations; layout 0.
        let mut pattern_configs = Vec::new();
        for mode in [Mode::Group, Mode::Plain] {
            for direction in [Some("asc"), Some("desc"), Some("ASC")] {
                for format in [None, Some("numeric")] {
                    pattern_configs.push(Config { direction, mode, format });
                }
            }
        }
        for seq in sequences(&PATTERN_ALPHABET, 2) {
            fast.run("V1", &pattern_configs, &seq, &mut cases);
        }
        let pattern_configs_3 = [
            Config { direction: Some("asc"), mode: Mode::Group, format: None },
            Config { direction: Some("desc"), mode: Mode::Group, format: None },
            Config { direction: Some("asc"), mode: Mode::Plain, format: Some("numeric") },
            Config { direction: Some("desc"), mode: Mode::Plain, format: Some("numeric") },
            Config { direction: Some("asc"), mode: Mode::Plain, format: None },
            Config { direction: Some("desc"), mode: Mode::Group, format: Some("numeric") },
        ];
        let nine: Vec<Sym> = [0usize, 1, 2, 4, 5, 7, 8, 10, 11].iter().map(|i| PATTERN_ALPHABET[*i]).collect();
        for seq in sequences(&nine, 3) {
            if seq.len() == 3 {
                fast.run("V1", &pattern_configs_3, &seq, &mut cases);
            }
        }
        // (c) every layout: no pattern: sequences of <= 3 lines over a 6-line alphabet x asc/desc;
        //     patterns: sequences of <= 2 lines over 6 annotated lines x (group, lexicographic) and
        //     (plain, numeric) x asc/desc.
        let small_trim = [t("b"), t("a"), t("  ab"), t(""), t("\u{e9} a "), t("10")];
        let small_pattern = [PATTERN_ALPHABET[0], PATTERN_ALPHABET[1], PATTERN_ALPHABET[4], PATTERN_ALPHABET[5], PATTERN_ALPHABET[10], PATTERN_ALPHABET[11]];
        for layout in 0..LAYOUTS {
            for seq in sequences(&small_trim, 3) {
                for direction in [Some("asc"), Some("desc")] {
                    run_case("V1", &parsers, layout, &Config { direction, mode: Mode::Trim, format: None }, &seq, &mut cases);
                }
            }
            for seq in sequences(&small_pattern, 2) {
                for (mode, format) in [(Mode::Group, None), (Mode::Plain, Some("numeric"))] {
                    for direction in [Some("asc"), Some("desc")] {
                        run_case("V1", &parsers, layout, &Config { direction, mode, format }, &seq, &mut cases);
                    }
                }
            }
        }
        // (c') a pattern whose match can be EMPTY, `(?P<value>z*)`: the key of a non-blank line is its
        //      leading run of `z` (possibly ""; an empty key is a key and is reported at the single
        //      column where it was found), a blank line has no key. Every sequence of <= 3 lines over 9
        //      lines x asc/desc x {lexicographic, numeric (an empty / non-numeric key is an error)};
        //      layout 0 through the fast path, and sequences of <= 2 lines in the layouts where the
        //      content begins on the tag's own line (2, 4) and where the end tag shares the last line (3).
        let empty_alphabet = [t("zb"), t("a"), t("zza"), t(""), t("   "), t("z"), t("b"), t("zz"), t(" zb")];
        let empty_configs = [
            Config { direction: Some("asc"), mode: Mode::EmptyGroup, format: None },
            Config { direction: Some("desc"), mode: Mode::EmptyGroup, format: None },
            Config { direction: Some("asc"), mode: Mode::EmptyGroup, format: Some("numeric") },
            Config { direction: Some("desc"), mode: Mode::EmptyGroup, format: Some("numeric") },
        ];
        for seq in sequences(&empty_alphabet, 3) {
            fast.run("V1", &empty_configs, &seq, &mut cases);
        }
        for layout in [2usize, 3, 4] {
            for seq in sequences(&empty_alphabet, 2) {
                for config in &empty_configs[..2] {
                    run_case("V1", &parsers, layout, config, &seq, &mut cases);
                }
            }
        }
        // (d) longer random blocks (seeded from VERIF_SEED).
        let mut rng = Lcg::from_env();
        for _ in 0..1500 {
            let len = 6 + rng.next(10) as usize;
            let seq: Vec<Sym> = (0..len).map(|_| TRIM_ALPHABET[rng.next(12) as usize]).collect();
            let direction = DIRECTIONS[rng.next(6) as usize];
            let format = if rng.next(2) == 0 { None } else { Some("numeric") };
            run_case("V1", &parsers, rng.next(LAYOUTS as u64) as usize, &Config { direction, mode: Mode::Trim, format }, &seq, &mut cases);
        }
        // (e) TWO sibling blocks in one file: each block is judged on its own keys only (nothing is carried
        //     over from one block to the next), every block gets at most one diagnostic.
        {
            let seqs: [&[&str]; 7] = [&[], &["a"], &["a", "b"], &["b", "a"], &["m", "z"], &["z", "m"], &["b", "a", "c"]];
            let first_bad = |keys: &[&str], asc: bool| -> Option<usize> {
                (1..keys.len()).find(|i| if asc { keys[i - 1] > keys[*i] } else { keys[i - 1] < keys[*i] })
            };
            for (da, asc_a) in [("asc", true), ("desc", false)] {
                for (db, asc_b) in [("asc", true), ("desc", false)] {
                    for sa in seqs {
                        for sb in seqs {
                            let mut text = format!("# <block keep-sorted=\"{da}\">\n");
                            for l in sa { text.push_str(l); text.push('\n'); }
                            text.push_str("# </block>\nx = 1\n");
                            let b_tag_line = sa.len() + 4;
                            text.push_str(&format!("# <block keep-sorted=\"{db}\">\n"));
                            for l in sb { text.push_str(l); text.push('\n'); }
                            text.push_str("# </block>\n");
                            let mut expected: Vec<(usize, usize, usize)> = Vec::new();
                            if let Some(i) = first_bad(sa, asc_a) { expected.push((2 + i, 1, sa[i].len())); }
                            if let Some(i) = first_bad(sb, asc_b) { expected.push((b_tag_line + 1 + i, 1, sb[i].len())); }
                            let context = context_of(&parsers, "f.py", &text).unwrap();
                            let observed = KeepSortedValidator::new().validate(context);
                            cases += 1;
                            let mut got: Vec<(usize, usize, usize)> = match &observed {
                                Ok(m) => m.values().flatten().map(|v| (v.range.start.line, v.range.start.character, v.range.end.character)).collect(),
                                Err(_) => vec![(0, 0, 0)],
                            };
                            got.sort();
                            if got != expected {
                                cex_fail(
                                    "V1",
                                    "two keep-sorted blocks in one file: each block is judged on its own keys only (at most one diagnostic per block, on its first out-of-order key)",
                                    json!({"file_name": "f.py", "file_text": text}),
                                    json!({"violations_line_colstart_colend": expected}),
                                    outcome_json(&observed),
                                );
                            }
                        }
                    }
                }
            }
        }
        cex_none(
            "V1",
            cases,
            "two sibling blocks per file: 7 x 7 key sequences x {asc,desc}^2; no pattern: all sequences of <=4 lines over {a,b,ab,'  a','b  ','','   ',2,10,9.5,-3,2.0} and <=5 lines over {a,b,'\\ta ','',10,B} x {asc,desc,'',ASC,Desc,bare} x {lexicographic,numeric}; patterns (regex compile is ~1 ms in debug): all sequences of <=2 lines over 12 annotated `k=..` lines x {group,plain} x {asc,desc,ASC} x {lexicographic,numeric}, all 3-line sequences over 9 of them x 6 configurations; 6 comment layouts x (no pattern: sequences of <=3 lines over 6 lines; patterns: <=2 lines); empty-match pattern `(?P<value>z*)` (key = leading run of z, possibly empty; blank lines have no key): all sequences of <=3 lines over {zb,a,zza,'','   ',z,b,zz,' zb'} x {asc,desc} x {lexicographic,numeric}, and <=2 lines in the layouts where content begins on the tag's line / the end tag shares the last line; 1500 random blocks of 6..=15 lines",
        );
    }

    #[test]
    fn cex_V1d() {
        // Direction / format / pattern attribute prefix: every spelling x contents that tell asc from desc.
        let parsers = parsers();
        let mut cases = 0u64;
        let mut directions: Vec<Option<&'static str>> = vec![None, Some(""), Some(" "), Some("  ")];
        for w in ["asc", "Asc", "aSc", "asC", "ASc", "AsC", "aSC", "ASC", "desc", "Desc", "dEsc", "deSc", "desC", "DESC", "DEsc", "dESC", "DesC"] {
            directions.push(Some(w));
        }
        for bad in ["ascending", "descending", "as", "des", "up", "down", " asc", "asc ", " desc ", "asc,desc", "0", "true", "a sc", "ascdesc", "de sc"] {
            directions.push(Some(bad));
        }
        let formats: Vec<Option<&'static str>> = vec![
            None, Some(""), Some(" "), Some("numeric"), Some("Numeric"), Some("NUMERIC"), Some(" numeric "), Some("lexicographic"),
            Some("LEXICOGRAPHIC"), Some("number"), Some("num"), Some("numerical"), Some("lex"), Some("alphabetic"), Some("numeric,lexicographic"),
        ];
        let contents: Vec<Vec<Sym>> = vec![
            vec![],
            vec![t("a")],
            vec![t("a"), t("b")],
            vec![t("b"), t("a")],
            vec![t("a"), t("a")],
            vec![t("2"), t("10")],
            vec![t("10"), t("2")],
            vec![t("10"), t("9.5"), t("-3")],
            vec![t("-3"), t("2"), t("2.0"), t("9.5"), t("10")],
            vec![t("a"), t("b"), t("a")],
        ];
        for direction in &directions {
            for format in &formats {
                for content in &contents {
                    for layout in [0usize, 2] {
                        run_case("V1d", &parsers, layout, &Config { direction: *direction, mode: Mode::Trim, format: *format }, content, &mut cases);
                    }
                }
            }
        }
        // An uncompilable pattern is an error on a block with content, whatever the direction (C13).
        for (attrs, lines, expect_err) in [
            ("keep-sorted keep-sorted-pattern=\"(\"", vec!["a"], true),
            ("keep-sorted=\"desc\" keep-sorted-pattern=\"[a-\"", vec!["b", "a"], true),
            ("keep-sorted keep-sorted-pattern=\"\"", vec!["b", "a"], false),
        ] {
            let built = build(0, attrs, &lines);
            let context = context_of(&parsers, built.file_name, &built.text).unwrap();
            let observed = KeepSortedValidator::new().validate(context);
            cases += 1;
            let ok = if expect_err {
                observed.is_err()
            } else {
                // empty pattern == no pattern: `a` on line 3 is out of order
                agrees(&Expect::At { line: 3, col_start: 1, col_end: 1, key: "a".into() }, &observed, "keep-sorted", built.file_name, &built.text)
            };
            if !ok {
                cex_fail(
                    "V1d",
                    "keep-sorted-pattern: an uncompilable regex on a block with content is an error; an empty pattern means no pattern",
                    json!({"file_name": built.file_name, "file_text": built.text}),
                    if expect_err { json!({"error": "any"}) } else { json!("one violation at line 3 col 1..1") },
                    outcome_json(&observed),
                );
            }
        }
        cex_none(
            "V1d",
            cases,
            "36 spellings of keep-sorted (bare, empty, blank, every letter case of asc, 9 cases of desc, 15 malformed) x 15 spellings of keep-sorted-format x 10 contents that separate asc/desc/lexicographic/numeric x 2 layouts; 3 pattern-prefix cases",
        );
    }

    #[test]
    fn cex_V1cmp() {
        let numeric = ["2", "10", "9.5", "-3", "2.0", "007", "0.5", "-0.5", "100", "0", "+4", "3.25", "-10", "1", "1.0", "1.000"];
        let junk = ["a", "", "1a", "--1", "1 2", "1,5", "ten", " 1", "1 ", "0x10", "1.2.3", "-"];
        let words = ["a", "b", "ab", "B", "\u{e9}", "10", "2", "", "a ", "aa", "Z", "z", "9.5", "-3", "\u{10348}", "~"];
        let mut cases = 0u64;
        for a in numeric.iter().chain(junk.iter()) {
            for b in numeric.iter().chain(junk.iter()) {
                let expected = match (ref_number(a), ref_number(b)) {
                    (Some(x), Some(y)) => Some(x.cmp(&y)),
                    _ => None,
                };
                let observed = SortFormat::Numeric.cmp(a, b).ok();
                cases += 1;
                if expected != observed {
                    cex_fail(
                        "V1cmp",
                        "SortFormat::Numeric.cmp must order decimal numerals by value and reject anything that is not a number",
                        json!({"format": "numeric", "a": a, "b": b}),
                        json!(expected.map_or("Err".to_string(), |o| format!("{o:?}"))),
                        json!(observed.map_or("Err".to_string(), |o| format!("{o:?}"))),
                    );
                }
            }
        }
        for a in words.iter().chain(numeric.iter()) {
            for b in words.iter().chain(numeric.iter()) {
                let expected = Some(ref_lex_cmp(a, b));
                let observed = SortFormat::Lexicographic.cmp(a, b).ok();
                cases += 1;
                if expected != observed {
                    cex_fail(
                        "V1cmp",
                        "SortFormat::Lexicographic.cmp must order strings by code point",
                        json!({"format": "lexicographic", "a": a, "b": b}),
                        json!(expected.map_or("Err".to_string(), |o| format!("{o:?}"))),
                        json!(observed.map_or("Err".to_string(), |o| format!("{o:?}"))),
                    );
                }
            }
        }
        cex_none("V1cmp", cases, "numeric: all ordered pairs over 16 decimal numerals (incl. equal values with different spellings, same-length pairs, signs) + 12 non-numbers; lexicographic: all ordered pairs over 32 strings (ASCII, upper/lower, multi-byte, prefixes); -0 / nan / inf / exponent spellings are NOT enumerated");
    }

    #[test]
    fn cex_V1t() {
        // Every string of length <= 5 over {space, tab, a, b, e-acute, NBSP}.
        let alphabet = [' ', '\t', 'a', 'b', '\u{e9}', '\u{a0}'];
        let mut pool = vec![String::new()];
        let mut layer = vec![String::new()];
        for _ in 0..5 {
            let mut next = Vec::new();
            for s in &layer {
                for c in alphabet {
                    let mut t = s.clone();
                    t.push(c);
                    next.push(t);
                }
            }
            pool.extend(next.iter().cloned());
            layer = next;
        }
        let mut cases = 0u64;
        for line in &pool {
            // 1-based inclusive byte columns of the text without surrounding whitespace.
            let expected = trimmed_span(line).map(|(a, b)| (line[a..b].to_string(), a + 1, b));
            let observed = KeepSortedValidator::trimmed_line_value(line).map(|(s, r)| (s.to_string(), *r.start(), *r.end()));
            cases += 1;
            if expected != observed {
                cex_fail(
                    "V1t",
                    "trimmed_line_value: None for a blank line, else the line without surrounding whitespace and its 1-based inclusive byte columns",
                    json!({"line": line}),
                    json!(expected),
                    json!(observed),
                );
            }
        }
        cex_none("V1t", cases, "every string of length 0..=5 over {space, tab, a, b, U+00E9, U+00A0}");
    }

    #[test]
    fn cex_V1r() {
        // Lines assembled from parts, so the key's position is known by construction.
        let prefixes = ["", " ", "z ", "\u{e9} ", "k= ", "kk"];
        let keys = ["a", "ab", "10", "-3", "\u{e9}x"];
        let suffixes = ["", " w", " k=zz", "  "];
        let group_re = regex::Regex::new(GROUP_PATTERN).unwrap();
        let whole_re = regex::Regex::new("k=[^ ]+").unwrap();
        let optional_group_re = regex::Regex::new("(?P<value>QQ)?k=[^ ]+").unwrap();
        let other_group_re = regex::Regex::new("k=(?P<val>[^ ]+)").unwrap();
        let mut cases = 0u64;
        let mut check = |line: &str, re: &regex::Regex, re_text: &str, expected: Option<(String, usize, usize)>, cases: &mut u64| {
            let observed = KeepSortedValidator::regex_value(line, re).map(|(s, r)| (s.to_string(), *r.start(), *r.end()));
            *cases += 1;
            if expected != observed {
                cex_fail(
                    "V1r",
                    "regex_value: None for a blank line or when the line has no match, else the `value` group if it took part in the leftmost match, else the whole match, with 1-based inclusive byte columns (an empty key: the single column where it was found)",
                    json!({"line": line, "pattern": re_text}),
                    json!(expected),
                    json!(observed),
                );
            }
        };
        for p in prefixes {
            for k in keys {
                for s in suffixes {
                    let line = format!("{p}k={k}{s}");
                    let key_at = p.len() + 2;
                    // leftmost match: prefix "k= " has `k=` followed by a space -> not a match of k=[^ ]+; "kk" -> match starts at its 2nd k
                    let group_expected = Some((k.to_string(), key_at + 1, key_at + k.len()));
                    check(&line, &group_re, GROUP_PATTERN, group_expected.clone(), &mut cases);
                    let whole = format!("k={k}");
                    let whole_expected = Some((whole.clone(), key_at - 2 + 1, key_at + k.len()));
                    check(&line, &whole_re, "k=[^ ]+", whole_expected.clone(), &mut cases);
                    check(&line, &optional_group_re, "(?P<value>QQ)?k=[^ ]+", whole_expected.clone(), &mut cases);
                    check(&line, &other_group_re, "k=(?P<val>[^ ]+)", whole_expected, &mut cases);
                    let with_q = format!("{p}QQk={k}{s}");
                    check(&with_q, &optional_group_re, "(?P<value>QQ)?k=[^ ]+", Some(("QQ".to_string(), p.len() + 1, p.len() + 2)), &mut cases);
                }
            }
            for no_match in ["", "k", "k=", "k= a", "nomatch", "K=a"] {
                let line = format!("{p}{no_match}");
                if group_re.is_match(&line) {
                    continue; // (prefix "kk" + "=.." style accidents)
                }
                check(&line, &group_re, GROUP_PATTERN, None, &mut cases);
            }
        }
        // patterns whose match can be EMPTY: a blank line never has a key; on a non-blank line the
        // (possibly empty) match at the leftmost position is the key, and an empty key is reported
        // as the single column where it was found: start == end == match_start + 1.
        let run_of = |line: &str, pred: fn(u8) -> bool| line.bytes().take_while(|b| pred(*b)).count();
        let empty_patterns: [(&str, fn(u8) -> bool); 4] = [
            ("(?P<value>z*)", |b| b == b'z'),
            ("z*", |b| b == b'z'),
            ("(?P<value>[a-z]*)", |b| b.is_ascii_lowercase()),
            ("x*", |b| b == b'x'),
        ];
        for (pattern, pred) in empty_patterns {
            let re = regex::Regex::new(pattern).unwrap();
            for line in ["zb", "a", "zza", "", "   ", "\t", " \u{a0} ", "z", "b", "zz", " zb", "abc", "1", "ab1", "xxa", "\u{e9}z", "z "] {
                let expected = if line.chars().all(char::is_whitespace) {
                    None
                } else {
                    let n = run_of(line, pred);
                    Some((line[..n].to_string(), 1usize, if n == 0 { 1 } else { n }))
                };
                check(line, &re, pattern, expected, &mut cases);
            }
        }
        cex_none("V1r", cases, "lines = 6 prefixes x `k=` x 5 keys x 4 suffixes (key position known by construction) against 4 patterns (value group, no group, optional value group taking part / not taking part, differently named group) + non-matching lines; 4 patterns whose match can be empty ((?P<value>z*), z*, (?P<value>[a-z]*), x*) x 17 lines incl. blank ones (no key) and lines where the match is empty (key \"\" at the single column start == end == 1)");
    }
}
