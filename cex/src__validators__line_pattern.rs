
// ---------------------------------------------------------------------------------------------
// verif_cex: small-scope exhaustive differential harness for src/validators/line_pattern.rs
// unit: V3                         (see /verif/cex/README.md, /verif/cex/MAP.json)
// This text is appended verbatim to a scratch copy of src/validators/line_pattern.rs.
// ---------------------------------------------------------------------------------------------
#[cfg(test)]
#[allow(unused_imports, dead_code, clippy::all)]
mod verif_cex {
    use super::*;
    use crate::blocks::{Block, BlockWithContext, FileBlocks};
    use crate::validators::{ValidationContext, ValidatorSync, Violation};
    use serde_json::{Value, json};
    use std::collections::HashMap as CexHashMap;
    use std::ffi::OsString;
    use std::path::PathBuf as CexPathBuf;
    use std::sync::Arc as CexArc;

    fn cex_fail(unit: &str, what: &str, input: Value, expected: Value, observed: Value) -> ! {
        println!(
            "VERIF-CEX {}",
            json!({"unit": unit, "what": what, "input": input, "expected": expected, "observed": observed})
        );
        panic!("counterexample for unit {unit}: {what}");
    }

    fn cex_none(unit: &str, cases: u64, bound: &str) {
        println!(
            "VERIF-CEX-NONE {}",
            json!({"unit": unit, "cases": cases, "bound": bound})
        );
    }

    struct Lcg(u64);
    impl Lcg {
        fn from_env() -> Self {
            let seed = std::env::var("VERIF_SEED")
                .ok()
                .and_then(|s| s.parse::<u64>().ok())
                .unwrap_or(1);
            Lcg(seed.wrapping_mul(0x9E3779B97F4A7C15).wrapping_add(0x1234567))
        }
        fn next(&mut self, n: u64) -> u64 {
            self.0 = self.0.wrapping_mul(6364136223846793005).wrapping_add(1442695040888963407);
            (self.0 >> 33) % n
        }
    }

    /// A generated source file with one block; `line_offsets[i]` is the byte offset in `text` at
    /// which the i-th generated content line starts (ground truth by construction).
    struct Built {
        file_name: &'static str,
        text: String,
        line_offsets: Vec<usize>,
        /// byte offsets of the start tag's `<` and `>` in `text`
        tag_lt: usize,
        tag_gt: usize,
    }

    const LAYOUTS: usize = 6;

    fn layout_name(layout: usize) -> &'static str {
        [
            "python: `# <block ..>` / lines / `# </block>`",
            "rust: start tag's block comment continues for two lines after the tag, then lines, `// </block>`",
            "rust: one-line block comment, content starts on the tag's own line, `/* </block> */` on its own line",
            "rust: code before, indented `// <block ..>`, end tag `/* </block> */` shares the last content line",
            "rust: tag on the last line of a three-line block comment, content starts on that line",
            "rust: multi-line start tag (attributes on separate lines) inside a block comment, then lines",
        ][layout]
    }

    /// Builds a file holding one block with the given start-tag attribute text and content lines.
    fn build(layout: usize, attrs: &str, lines: &[&str]) -> Built {
        let sp = if attrs.is_empty() { "" } else { " " };
        let (file_name, head, first_sep, tail): (&'static str, String, &str, &str) = match layout {
            0 => ("f.py", format!("# <block{sp}{attrs}>"), "\n", "\n# </block>\n"),
            1 => ("f.rs", format!("/* <block{sp}{attrs}>\n   note\n   more */"), "\n", "\n// </block>\n"),
            2 => ("f.rs", format!("/* <block{sp}{attrs}> */"), " ", "\n/* </block> */\n"),
            3 => ("f.rs", format!("fn x() {{}}\n\n    // <block{sp}{attrs}>"), "\n", " /* </block> */\nfn y() {}\n"),
            4 => ("f.rs", format!("/*\n note\n  <block{sp}{attrs}> */"), " ", "\n// </block>\n"),
            5 => ("f.rs", format!("  /* <block\n{sp}{}\n> */", attrs.replace("\" ", "\"\n   ")), "\n", "\n  // </block>\n"),
            _ => unreachable!(),
        };
        let tag_lt = head.find("<block").unwrap();
        let tag_gt = head.rfind('>').unwrap();
        let mut text = head;
        let mut line_offsets = Vec::new();
        for (i, l) in lines.iter().enumerate() {
            text.push_str(if i == 0 { first_sep } else { "\n" });
            line_offsets.push(text.len());
            text.push_str(l);
        }
        if lines.is_empty() {
            text.push_str(first_sep);
        }
        text.push_str(tail);
        Built { file_name, text, line_offsets, tag_lt, tag_gt }
    }

    /// Byte offset -> (1-based line, 1-based byte column), by counting newlines in the file text.
    fn line_col(text: &str, byte: usize) -> (usize, usize) {
        let before = &text[..byte];
        let line = before.matches('\n').count() + 1;
        let line_start = before.rfind('\n').map_or(0, |p| p + 1);
        (line, byte - line_start + 1)
    }

    type Parsers = CexHashMap<OsString, crate::language_parsers::LanguageParser>;

    fn parsers() -> Parsers {
        crate::language_parsers::language_parsers().unwrap()
    }

    /// Parses `text` with the grammar registered for the file's extension and wraps every block
    /// (all marked content-modified) into a one-file validation context.
    fn context_of(parsers: &Parsers, file_name: &str, text: &str) -> Result<CexArc<ValidationContext>, String> {
        let ext = file_name.rsplit('.').next().unwrap();
        let parser = parsers.get(&OsString::from(ext)).unwrap();
        let blocks = parser.borrow_mut().parse(text).map_err(|e| e.to_string())?;
        Ok(context_from_blocks(file_name, text, blocks))
    }

    fn context_from_blocks(file_name: &str, text: &str, blocks: Vec<Block>) -> CexArc<ValidationContext> {
        CexArc::new(ValidationContext::new(CexHashMap::from([(
            CexPathBuf::from(file_name),
            FileBlocks {
                file_content: text.to_string(),
                blocks_with_context: blocks
                    .into_iter()
                    .map(|block| BlockWithContext { block, _is_start_tag_modified: false, is_content_modified: true })
                    .collect(),
            },
        )])))
    }

    fn violation_json(v: &Violation) -> Value {
        json!({
            "code": v.code,
            "range": {"start": {"line": v.range.start.line, "character": v.range.start.character},
                      "end": {"line": v.range.end.line, "character": v.range.end.character}},
            "severity": serde_json::to_value(v.severity).unwrap(),
            "data": v.data,
            "message": v.message,
        })
    }

    /// Outcome of a validator run, flattened: Err(message) or the list of (file, violation json).
    fn outcome_json(r: &anyhow::Result<CexHashMap<CexPathBuf, Vec<Violation>>>) -> Value {
        match r {
            Err(e) => json!({"error": e.to_string()}),
            Ok(m) => {
                let mut files: Vec<_> = m.iter().collect();
                files.sort_by(|a, b| a.0.cmp(b.0));
                json!({"violations": files.iter().map(|(f, vs)| json!({"file": f.display().to_string(), "diagnostics": vs.iter().map(violation_json).collect::<Vec<_>>()})).collect::<Vec<_>>()})
            }
        }
    }

    /// Expected outcome of a one-block run for the "designates exactly this text" validators.
    #[derive(Debug, Clone, PartialEq)]
    enum Expect {
        /// No diagnostic.
        Clean,
        /// Exactly one diagnostic whose range is (line, first byte column) ..= (line, last byte column), 1-based.
        At { line: usize, col_start: usize, col_end: usize, key: String },
        /// validate() returns Err.
        Error,
    }

    fn expect_json(e: &Expect) -> Value {
        match e {
            Expect::Clean => json!({"violations": []}),
            Expect::Error => json!({"error": "any"}),
            Expect::At { line, col_start, col_end, key } => json!({"violations": [{"range": {"start": {"line": line, "character": col_start}, "end": {"line": line, "character": col_end}}, "text_at_range": key}]}),
        }
    }

    /// Compares the validator's result with the expectation; `code` is the diagnostic code the
    /// single violation must carry. The range check is C10: the reported 1-based (line, byte
    /// column) pair must delimit exactly the offending key in the file text.
    fn agrees(
        expected: &Expect,
        observed: &anyhow::Result<CexHashMap<CexPathBuf, Vec<Violation>>>,
        code: &str,
        file_name: &str,
        text: &str,
    ) -> bool {
        match (expected, observed) {
            (Expect::Error, Err(_)) => true,
            (Expect::Clean, Ok(m)) => m.values().all(|v| v.is_empty()),
            (Expect::At { line, col_start, col_end, key }, Ok(m)) => {
                let all: Vec<(&CexPathBuf, &Violation)> = m.iter().flat_map(|(f, vs)| vs.iter().map(move |v| (f, v))).collect();
                if all.len() != 1 {
                    return false;
                }
                let (f, v) = all[0];
                if f != &CexPathBuf::from(file_name) || v.code != code {
                    return false;
                }
                if (v.range.start.line, v.range.start.character, v.range.end.line, v.range.end.character)
                    != (*line, *col_start, *line, *col_end)
                {
                    return false;
                }
                // Independent re-check against the file bytes.
                let file_line = text.split('\n').nth(*line - 1).unwrap_or("");
                file_line.as_bytes().get(col_start - 1..*col_end) == Some(key.as_bytes())
            }
            _ => false,
        }
    }

    /// A diagnostic location expected in a multi-block / multi-file run.
    #[derive(Debug, Clone, PartialEq, Eq, PartialOrd, Ord)]
    struct Loc {
        file: String,
        line: usize,
        col_start: usize,
        col_end: usize,
        key: String,
    }

    fn locs_json(locs: &Option<Vec<Loc>>) -> Value {
        match locs {
            None => json!({"error": "any"}),
            Some(v) => json!({"violations": v.iter().map(|l| json!({"file": l.file, "range": {"start": {"line": l.line, "character": l.col_start}, "end": {"line": l.line, "character": l.col_end}}, "text_at_range": l.key})).collect::<Vec<_>>()}),
        }
    }

    /// Multi-block version of `agrees`: `expected` = None for Err, else the exact multiset of
    /// diagnostics (file, line, 1-based inclusive byte columns, text found there).
    fn agrees_all(
        expected: &Option<Vec<Loc>>,
        observed: &anyhow::Result<CexHashMap<CexPathBuf, Vec<Violation>>>,
        code: &str,
        texts: &[(&str, &str)],
    ) -> bool {
        match (expected, observed) {
            (None, Err(_)) => true,
            (Some(exp), Ok(m)) => {
                let mut obs: Vec<(String, usize, usize, usize, usize)> = Vec::new();
                for (f, vs) in m {
                    for v in vs {
                        if v.code != code {
                            return false;
                        }
                        obs.push((f.display().to_string(), v.range.start.line, v.range.start.character, v.range.end.line, v.range.end.character));
                    }
                }
                obs.sort();
                let mut exp_sorted: Vec<(String, usize, usize, usize, usize)> =
                    exp.iter().map(|l| (l.file.clone(), l.line, l.col_start, l.line, l.col_end)).collect();
                exp_sorted.sort();
                if obs != exp_sorted {
                    return false;
                }
                exp.iter().all(|l| {
                    let text = texts.iter().find(|(f, _)| *f == l.file).map(|(_, t)| *t).unwrap_or("");
                    let file_line = text.split('\n').nth(l.line - 1).unwrap_or("");
                    file_line.as_bytes().get(l.col_start - 1..l.col_end) == Some(l.key.as_bytes())
                })
            }
            _ => false,
        }
    }

    /// Several sibling blocks in one python file: `# <block attrs>` / lines / `# </block>` each.
    /// Returns the text and, per block, the byte offsets of its generated content lines.
    fn build_siblings(blocks: &[(&str, Vec<&str>)]) -> (String, Vec<Vec<usize>>) {
        let mut text = String::from("import os\n");
        let mut all = Vec::new();
        for (attrs, lines) in blocks {
            let sp = if attrs.is_empty() { "" } else { " " };
            text.push_str(&format!("# <block{sp}{attrs}>\n"));
            let mut offs = Vec::new();
            for l in lines {
                offs.push(text.len());
                text.push_str(l);
                text.push('\n');
            }
            text.push_str("# </block>\n\n");
            all.push(offs);
        }
        (text, all)
    }

    /// One validation context over several files, every block marked content-modified.
    fn context_of_files(parsers: &Parsers, files: &[(&str, &str)]) -> Result<CexArc<ValidationContext>, String> {
        let mut map = CexHashMap::new();
        for (name, text) in files {
            let ext = name.rsplit('.').next().unwrap();
            let parser = parsers.get(&OsString::from(ext)).unwrap();
            let blocks = parser.borrow_mut().parse(text).map_err(|e| e.to_string())?;
            map.insert(
                CexPathBuf::from(name),
                FileBlocks {
                    file_content: text.to_string(),
                    blocks_with_context: blocks
                        .into_iter()
                        .map(|block| BlockWithContext { block, _is_start_tag_modified: false, is_content_modified: true })
                        .collect(),
                },
            );
        }
        Ok(CexArc::new(ValidationContext::new(map)))
    }

    /// A family of anchored and unanchored patterns, each with a hand-written reference matcher
    /// on the trimmed line (the oracle never runs a regex).
    #[derive(Clone, Copy)]
    struct Pat {
        regex: &'static str,
        matches: fn(&str) -> bool,
    }

    const PATTERNS: [Pat; 6] = [
        Pat { regex: "^ab$", matches: |t| t == "ab" },
        Pat { regex: "ab", matches: |t| t.contains("ab") },
        Pat { regex: "^a", matches: |t| t.starts_with('a') },
        Pat { regex: "b$", matches: |t| t.ends_with('b') },
        Pat { regex: "^[a-c]+$", matches: |t| !t.is_empty() && t.chars().all(|c| ('a'..='c').contains(&c)) },
        Pat { regex: "^z$", matches: |t| t == "z" },
    ];

    fn trimmed_span(line: &str) -> Option<(usize, usize)> {
        let first = line.char_indices().find(|(_, c)| !c.is_whitespace())?.0;
        let (last, ch) = line.char_indices().rev().find(|(_, c)| !c.is_whitespace())?;
        Some((first, last + ch.len_utf8()))
    }

    /// C08 oracle: the first non-blank line whose trimmed text has no match.
    fn ref_line_pattern(pat: &Pat, lines: &[&str], built: &Built) -> Expect {
        for (i, l) in lines.iter().enumerate() {
            let Some((a, b)) = trimmed_span(l) else { continue };
            if !(pat.matches)(&l[a..b]) {
                let (line, col) = line_col(&built.text, built.line_offsets[i] + a);
                return Expect::At { line, col_start: col, col_end: col + (b - a) - 1, key: l[a..b].to_string() };
            }
        }
        Expect::Clean
    }

    fn run_case(parsers: &Parsers, layout: usize, pat: &Pat, lines: &[&str], cases: &mut u64) {
        let built = build(layout, &format!("line-pattern=\"{}\"", pat.regex), lines);
        let input = json!({
            "file_name": built.file_name,
            "file_text": built.text,
            "layout": layout_name(layout),
            "line-pattern": pat.regex,
            "content_lines": lines,
        });
        let context = match context_of(parsers, built.file_name, &built.text) {
            Ok(c) => c,
            Err(e) => cex_fail("V3", "generated one-block file failed to parse", input, json!("one block"), json!(e)),
        };
        let expected = ref_line_pattern(pat, lines, &built);
        let observed = LinePatternValidator::new().validate(context);
        *cases += 1;
        if !agrees(&expected, &observed, "line-pattern", built.file_name, &built.text) {
            cex_fail(
                "V3",
                "line-pattern: expected exactly one diagnostic at the first non-blank line whose trimmed text has no match (none if every non-blank line matches), at the file line / 1-based byte columns that delimit the trimmed line",
                input,
                expect_json(&expected),
                outcome_json(&observed),
            );
        }
    }

    fn sequences(alphabet: &[&'static str], max_len: usize) -> Vec<Vec<&'static str>> {
        let mut out: Vec<Vec<&'static str>> = vec![vec![]];
        let mut layer: Vec<Vec<&'static str>> = vec![vec![]];
        for _ in 0..max_len {
            let mut next = Vec::new();
            for s in &layer {
                for a in alphabet {
                    let mut t = s.clone();
                    t.push(*a);
                    next.push(t);
                }
            }
            out.extend(next.iter().cloned());
            layer = next;
        }
        out
    }

    #[test]
    fn cex_V3() {
        let parsers = parsers();
        let mut cases = 0u64;
        // matching, non-matching, indented, trailing-blank, blank and partially matching lines
        let alphabet = ["ab", "  ab", "ab  ", "xab", "abx", "", "  ", "cab", "a b"];
        // (a) every sequence of <= 3 lines x every pattern (each case compiles a regex, ~1 ms in debug).
        //     every 4-line sequence x {^ab$, ^a, b$}.
        for seq in sequences(&alphabet, 4) {
            if seq.len() <= 3 {
                for pat in &PATTERNS {
                    run_case(&parsers, 0, pat, &seq, &mut cases);
                }
            } else {
                for pat in [&PATTERNS[0], &PATTERNS[2], &PATTERNS[3]] {
                    run_case(&parsers, 0, pat, &seq, &mut cases);
                }
            }
        }
        // (b) every sequence of 4..=5 lines over a 4-line alphabet x two patterns.
        for seq in sequences(&["ab", "  xab ", "", "\tab\t"], 5) {
            if seq.len() >= 4 {
                run_case(&parsers, 0, &PATTERNS[0], &seq, &mut cases);
                run_case(&parsers, 0, &PATTERNS[3], &seq, &mut cases);
            }
        }
        // (c) every comment layout (C10), incl. `/* <block line-pattern="^z$"> */ b`.
        for layout in 0..LAYOUTS {
            for seq in sequences(&["ab", "  b", "", "\u{e9} x ", "z"], 2) {
                run_case(&parsers, layout, &PATTERNS[0], &seq, &mut cases);
                run_case(&parsers, layout, &PATTERNS[5], &seq, &mut cases);
            }
        }
        // (d) an uncompilable regex on a block with content is an error (C13).
        for text in ["# <block line-pattern=\"(\">\na\n# </block>\n", "# <block line-pattern=\"[a-\">\n\n  ab\n# </block>\n"] {
            let context = context_of(&parsers, "f.py", text).unwrap();
            let observed = LinePatternValidator::new().validate(context);
            cases += 1;
            if observed.is_ok() {
                cex_fail(
                    "V3",
                    "line-pattern: an uncompilable regex on a block with content is an error",
                    json!({"file_name": "f.py", "file_text": text}),
                    json!({"error": "any"}),
                    outcome_json(&observed),
                );
            }
        }
        // (e) longer random blocks.
        let mut rng = Lcg::from_env();
        for _ in 0..600 {
            let len = 6 + rng.next(12) as usize;
            let seq: Vec<&str> = (0..len).map(|_| alphabet[rng.next(9) as usize]).collect();
            // bias towards long matching prefixes: replace non-matching lines by `ab` with probability 3/4
            let pat = &PATTERNS[rng.next(5) as usize];
            let seq: Vec<&str> = seq
                .into_iter()
                .map(|l| if trimmed_span(l).is_some_and(|(a, b)| !(pat.matches)(&l[a..b])) && rng.next(4) != 0 { "  ab " } else { l })
                .collect();
            run_case(&parsers, rng.next(LAYOUTS as u64) as usize, pat, &seq, &mut cases);
        }
        cex_none(
            "V3",
            cases,
            "all sequences of <=3 lines over {ab,'  ab','ab  ',xab,abx,'','  ',cab,'a b'} x patterns {^ab$, ab, ^a, b$, ^[a-c]+$, ^z$}, all 4-line sequences x {^ab$, ^a, b$}; all sequences of 4..=5 lines over 4 lines x 2 patterns; 6 comment layouts x sequences of <=2 lines x 2 patterns; 2 malformed-regex cases; 600 random blocks of 6..=17 lines",
        );
    }
}
