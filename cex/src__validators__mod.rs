
// ---------------------------------------------------------------------------------------------
// verif_cex: small-scope exhaustive differential harnesses for src/validators/mod.rs
// units: V10 V7s V7m                 (see /verif/cex/README.md, /verif/cex/MAP.json)
// This text is appended verbatim to a scratch copy of src/validators/mod.rs.
// ---------------------------------------------------------------------------------------------
#[cfg(test)]
#[allow(unused_imports, dead_code, clippy::all)]
mod verif_cex {
    use super::*;
    use crate::blocks::{Block, BlockWithContext, FileBlocks};
    use crate::validators::{ValidationContext, ValidatorSync, Violation};
    use serde_json::{Value, json};
    use std::collections::HashMap as CexHashMap;
    use std::ffi::OsString;
    use std::path::PathBuf as CexPathBuf;
    use std::sync::Arc as CexArc;

    fn cex_fail(unit: &str, what: &str, input: Value, expected: Value, observed: Value) -> ! {
        println!(
            "VERIF-CEX {}",
            json!({"unit": unit, "what": what, "input": input, "expected": expected, "observed": observed})
        );
        panic!("counterexample for unit {unit}: {what}");
    }

    fn cex_none(unit: &str, cases: u64, bound: &str) {
        println!(
            "VERIF-CEX-NONE {}",
            json!({"unit": unit, "cases": cases, "bound": bound})
        );
    }

    struct Lcg(u64);
    impl Lcg {
        fn from_env() -> Self {
            let seed = std::env::var("VERIF_SEED")
                .ok()
                .and_then(|s| s.parse::<u64>().ok())
                .unwrap_or(1);
            Lcg(seed.wrapping_mul(0x9E3779B97F4A7C15).wrapping_add(0x1234567))
        }
        fn next(&mut self, n: u64) -> u64 {
            self.0 = self.0.wrapping_mul(6364136223846793005).wrapping_add(1442695040888963407);
            (self.0 >> 33) % n
        }
    }

    /// A generated source file with one block; `line_offsets[i]` is the byte offset in `text` at
    /// which the i-th generated content line starts (ground truth by construction).
    struct Built {
        file_name: &'static str,
        text: String,
        line_offsets: Vec<usize>,
        /// byte offsets of the start tag's `<` and `>` in `text`
        tag_lt: usize,
        tag_gt: usize,
    }

    const LAYOUTS: usize = 6;

    fn layout_name(layout: usize) -> &'static str {
        [
            "python: `# <block ..>` / lines / `# </block>`",
            "rust: start tag's block comment continues for two lines after the tag, then lines, `// </block>`",
            "rust: one-line block comment, content starts on the tag's own line, `/* </block> */` on its own line",
            "rust: code before, indented `// <block ..>`, end tag `/* </block> */` shares the last content line",
            "rust: tag on the last line of a three-line block comment, content starts on that line",
            "rust: multi-line start tag (attributes on separate lines) inside a block comment, then lines",
        ][layout]
    }

    /// Builds a file holding one block with the given start-tag attribute text and content lines.
    fn build(layout: usize, attrs: &str, lines: &[&str]) -> Built {
        let sp = if attrs.is_empty() { "" } else { " " };
        let (file_name, head, first_sep, tail): (&'static str, String, &str, &str) = match layout {
            0 => ("f.py", format!("# <block{sp}{attrs}>"), "\n", "\n# </block>\n"),
            1 => ("f.rs", format!("/* <block{sp}{attrs}>\n   note\n   more */"), "\n", "\n// </block>\n"),
            2 => ("f.rs", format!("/* <block{sp}{attrs}> */"), " ", "\n/* </block> */\n"),
            3 => ("f.rs", format!("fn x() {{}}\n\n    // <block{sp}{attrs}>"), "\n", " /* </block> */\nfn y() {}\n"),
            4 => ("f.rs", format!("/*\n note\n  <block{sp}{attrs}> */"), " ", "\n// </block>\n"),
            5 => ("f.rs", format!("  /* <block\n{sp}{}\n> */", attrs.replace("\" ", "\"\n   ")), "\n", "\n  // </block>\n"),
            _ => unreachable!(),
        };
        let tag_lt = head.find("<block").unwrap();
        let tag_gt = head.rfind('>').unwrap();
        let mut text = head;
        let mut line_offsets = Vec::new();
        for (i, l) in lines.iter().enumerate() {
            text.push_str(if i == 0 { first_sep } else { "\n" });
            line_offsets.push(text.len());
            text.push_str(l);
        }
        if lines.is_empty() {
            text.push_str(first_sep);
        }
        text.push_str(tail);
        Built { file_name, text, line_offsets, tag_lt, tag_gt }
    }

    /// Byte offset -> (1-based line, 1-based byte column), by counting newlines in the file text.
    fn line_col(text: &str, byte: usize) -> (usize, usize) {
        let before = &text[..byte];
        let line = before.matches('\n').count() + 1;
        let line_start = before.rfind('\n').map_or(0, |p| p + 1);
        (line, byte - line_start + 1)
    }

    type Parsers = CexHashMap<OsString, crate::language_parsers::LanguageParser>;

    fn parsers() -> Parsers {
        crate::language_parsers::language_parsers().unwrap()
    }

    /// Parses `text` with the grammar registered for the file's extension and wraps every block
    /// (all marked content-modified) into a one-file validation context.
    fn context_of(parsers: &Parsers, file_name: &str, text: &str) -> Result<CexArc<ValidationContext>, String> {
        let ext = file_name.rsplit('.').next().unwrap();
        let parser = parsers.get(&OsString::from(ext)).unwrap();
        let blocks = parser.borrow_mut().parse(text).map_err(|e| e.to_string())?;
        Ok(context_from_blocks(file_name, text, blocks))
    }

    fn context_from_blocks(file_name: &str, text: &str, blocks: Vec<Block>) -> CexArc<ValidationContext> {
        CexArc::new(ValidationContext::new(CexHashMap::from([(
            CexPathBuf::from(file_name),
            FileBlocks {
                file_content: text.to_string(),
                blocks_with_context: blocks
                    .into_iter()
                    .map(|block| BlockWithContext { block, _is_start_tag_modified: false, is_content_modified: true })
                    .collect(),
            },
        )])))
    }

    fn violation_json(v: &Violation) -> Value {
        json!({
            "code": v.code,
            "range": {"start": {"line": v.range.start.line, "character": v.range.start.character},
                      "end": {"line": v.range.end.line, "character": v.range.end.character}},
            "severity": serde_json::to_value(v.severity).unwrap(),
            "data": v.data,
            "message": v.message,
        })
    }

    /// Outcome of a validator run, flattened: Err(message) or the list of (file, violation json).
    fn outcome_json(r: &anyhow::Result<CexHashMap<CexPathBuf, Vec<Violation>>>) -> Value {
        match r {
            Err(e) => json!({"error": e.to_string()}),
            Ok(m) => {
                let mut files: Vec<_> = m.iter().collect();
                files.sort_by(|a, b| a.0.cmp(b.0));
                json!({"violations": files.iter().map(|(f, vs)| json!({"file": f.display().to_string(), "diagnostics": vs.iter().map(violation_json).collect::<Vec<_>>()})).collect::<Vec<_>>()})
            }
        }
    }

    /// Expected outcome of a one-block run for the "designates exactly this text" validators.
    #[derive(Debug, Clone, PartialEq)]
    enum Expect {
        /// No diagnostic.
        Clean,
        /// Exactly one diagnostic whose range is (line, first byte column) ..= (line, last byte column), 1-based.
        At { line: usize, col_start: usize, col_end: usize, key: String },
        /// validate() returns Err.
        Error,
    }

    fn expect_json(e: &Expect) -> Value {
        match e {
            Expect::Clean => json!({"violations": []}),
            Expect::Error => json!({"error": "any"}),
            Expect::At { line, col_start, col_end, key } => json!({"violations": [{"range": {"start": {"line": line, "character": col_start}, "end": {"line": line, "character": col_end}}, "text_at_range": key}]}),
        }
    }

    /// Compares the validator's result with the expectation; `code` is the diagnostic code the
    /// single violation must carry. The range check is C10: the reported 1-based (line, byte
    /// column) pair must delimit exactly the offending key in the file text.
    fn agrees(
        expected: &Expect,
        observed: &anyhow::Result<CexHashMap<CexPathBuf, Vec<Violation>>>,
        code: &str,
        file_name: &str,
        text: &str,
    ) -> bool {
        match (expected, observed) {
            (Expect::Error, Err(_)) => true,
            (Expect::Clean, Ok(m)) => m.values().all(|v| v.is_empty()),
            (Expect::At { line, col_start, col_end, key }, Ok(m)) => {
                let all: Vec<(&CexPathBuf, &Violation)> = m.iter().flat_map(|(f, vs)| vs.iter().map(move |v| (f, v))).collect();
                if all.len() != 1 {
                    return false;
                }
                let (f, v) = all[0];
                if f != &CexPathBuf::from(file_name) || v.code != code {
                    return false;
                }
                if (v.range.start.line, v.range.start.character, v.range.end.line, v.range.end.character)
                    != (*line, *col_start, *line, *col_end)
                {
                    return false;
                }
                // Independent re-check against the file bytes.
                let file_line = text.split('\n').nth(*line - 1).unwrap_or("");
                file_line.as_bytes().get(col_start - 1..*col_end) == Some(key.as_bytes())
            }
            _ => false,
        }
    }

    /// A diagnostic location expected in a multi-block / multi-file run.
    #[derive(Debug, Clone, PartialEq, Eq, PartialOrd, Ord)]
    struct Loc {
        file: String,
        line: usize,
        col_start: usize,
        col_end: usize,
        key: String,
    }

    fn locs_json(locs: &Option<Vec<Loc>>) -> Value {
        match locs {
            None => json!({"error": "any"}),
            Some(v) => json!({"violations": v.iter().map(|l| json!({"file": l.file, "range": {"start": {"line": l.line, "character": l.col_start}, "end": {"line": l.line, "character": l.col_end}}, "text_at_range": l.key})).collect::<Vec<_>>()}),
        }
    }

    /// Multi-block version of `agrees`: `expected` = None for Err, else the exact multiset of
    /// diagnostics (file, line, 1-based inclusive byte columns, text found there).
    fn agrees_all(
        expected: &Option<Vec<Loc>>,
        observed: &anyhow::Result<CexHashMap<CexPathBuf, Vec<Violation>>>,
        code: &str,
        texts: &[(&str, &str)],
    ) -> bool {
        match (expected, observed) {
            (None, Err(_)) => true,
            (Some(exp), Ok(m)) => {
                let mut obs: Vec<(String, usize, usize, usize, usize)> = Vec::new();
                for (f, vs) in m {
                    for v in vs {
                        if v.code != code {
                            return false;
                        }
                        obs.push((f.display().to_string(), v.range.start.line, v.range.start.character, v.range.end.line, v.range.end.character));
                    }
                }
                obs.sort();
                let mut exp_sorted: Vec<(String, usize, usize, usize, usize)> =
                    exp.iter().map(|l| (l.file.clone(), l.line, l.col_start, l.line, l.col_end)).collect();
                exp_sorted.sort();
                if obs != exp_sorted {
                    return false;
                }
                exp.iter().all(|l| {
                    let text = texts.iter().find(|(f, _)| *f == l.file).map(|(_, t)| *t).unwrap_or("");
                    let file_line = text.split('\n').nth(l.line - 1).unwrap_or("");
                    file_line.as_bytes().get(l.col_start - 1..l.col_end) == Some(l.key.as_bytes())
                })
            }
            _ => false,
        }
    }

    /// Several sibling blocks in one python file: `# <block attrs>` / lines / `# </block>` each.
    /// Returns the text and, per block, the byte offsets of its generated content lines.
    fn build_siblings(blocks: &[(&str, Vec<&str>)]) -> (String, Vec<Vec<usize>>) {
        let mut text = String::from("import os\n");
        let mut all = Vec::new();
        for (attrs, lines) in blocks {
            let sp = if attrs.is_empty() { "" } else { " " };
            text.push_str(&format!("# <block{sp}{attrs}>\n"));
            let mut offs = Vec::new();
            for l in lines {
                offs.push(text.len());
                text.push_str(l);
                text.push('\n');
            }
            text.push_str("# </block>\n\n");
            all.push(offs);
        }
        (text, all)
    }

    /// One validation context over several files, every block marked content-modified.
    fn context_of_files(parsers: &Parsers, files: &[(&str, &str)]) -> Result<CexArc<ValidationContext>, String> {
        let mut map = CexHashMap::new();
        for (name, text) in files {
            let ext = name.rsplit('.').next().unwrap();
            let parser = parsers.get(&OsString::from(ext)).unwrap();
            let blocks = parser.borrow_mut().parse(text).map_err(|e| e.to_string())?;
            map.insert(
                CexPathBuf::from(name),
                FileBlocks {
                    file_content: text.to_string(),
                    blocks_with_context: blocks
                        .into_iter()
                        .map(|block| BlockWithContext { block, _is_start_tag_modified: false, is_content_modified: true })
                        .collect(),
                },
            );
        }
        Ok(CexArc::new(ValidationContext::new(map)))
    }

    const NAMES: [&str; 7] = ["affects", "keep-sorted", "keep-unique", "line-pattern", "line-count", "check-ai", "check-lua"];

    /// A block of the V10 contexts: which rule attributes it carries and whether its content is modified.
    #[derive(Clone, Copy, Debug)]
    struct Kind {
        label: &'static str,
        attrs: &'static [&'static str],
        modified: bool,
    }

    const KINDS: [Kind; 11] = [
        Kind { label: "plain", attrs: &[], modified: true },
        Kind { label: "keep-sorted", attrs: &["keep-sorted"], modified: false },
        Kind { label: "keep-unique", attrs: &["keep-unique"], modified: true },
        Kind { label: "line-pattern", attrs: &["line-pattern"], modified: false },
        Kind { label: "line-count", attrs: &["line-count"], modified: true },
        Kind { label: "affects(modified)", attrs: &["affects"], modified: true },
        Kind { label: "affects(unmodified)", attrs: &["affects"], modified: false },
        Kind { label: "check-ai", attrs: &["check-ai"], modified: false },
        Kind { label: "check-lua", attrs: &["check-lua"], modified: true },
        Kind { label: "keep-sorted+line-count+check-lua", attrs: &["keep-sorted", "line-count", "check-lua"], modified: false },
        Kind { label: "all seven (modified)", attrs: &["affects", "keep-sorted", "keep-unique", "line-pattern", "line-count", "check-ai", "check-lua"], modified: true },
    ];

    fn attr_value(name: &str) -> &'static str {
        match name {
            "affects" => ":nowhere",
            "keep-sorted" => "asc",
            "keep-unique" => "",
            "line-pattern" => "^z$",
            "line-count" => "<1",
            "check-ai" => "must be nice",
            "check-lua" => "no/such/script.lua",
            _ => unreachable!(),
        }
    }

    /// Which detectors fire on a block (each detector's own contract: the rule's attribute is
    /// present; `affects` additionally needs modified content).
    fn fires(kind: &Kind, name: &str) -> bool {
        kind.attrs.contains(&name) && (name != "affects" || kind.modified)
    }

    const PROBE_TEXT: &str = "# <block>\nb\na\na\n# </block>\n";

    fn make_block(template: &Block, attrs: &[(&str, &str)], modified: bool) -> BlockWithContext {
        let mut block = template.clone();
        for (k, v) in attrs {
            block.attributes.insert(k.to_string(), v.to_string());
        }
        BlockWithContext { block, _is_start_tag_modified: false, is_content_modified: modified }
    }

    /// Identifies a sync validator by the diagnostic code it produces on a block that violates
    /// every sync rule at once.
    fn identify_sync(v: &Box<dyn ValidatorSync>, template: &Block) -> String {
        let probe = make_block(
            template,
            &[("affects", ":nowhere"), ("keep-sorted", "asc"), ("keep-unique", ""), ("line-pattern", "^z$"), ("line-count", "<1")],
            true,
        );
        let context = CexArc::new(ValidationContext::new(CexHashMap::from([(
            CexPathBuf::from("probe.py"),
            FileBlocks { file_content: PROBE_TEXT.to_string(), blocks_with_context: vec![probe] },
        )])));
        match v.validate(context) {
            Err(e) => format!("error: {e}"),
            Ok(m) => {
                let mut codes: Vec<String> = m.values().flatten().map(|x| x.code.clone()).collect();
                codes.sort();
                codes.dedup();
                codes.join("+")
            }
        }
    }

    /// Identifies an async validator: it must reject an EMPTY value of its own attribute and
    /// ignore a block that only carries the other validator's attribute (no I/O in either case).
    fn identify_async(v: &Box<dyn ValidatorAsync>, template: &Block, runtime: &tokio::runtime::Runtime) -> String {
        let mut hits = Vec::new();
        for name in ["check-ai", "check-lua"] {
            let probe = make_block(template, &[(name, "")], true);
            let context = CexArc::new(ValidationContext::new(CexHashMap::from([(
                CexPathBuf::from("probe.py"),
                FileBlocks { file_content: PROBE_TEXT.to_string(), blocks_with_context: vec![probe] },
            )])));
            if runtime.block_on(v.validate(context)).is_err() {
                hits.push(name);
            }
        }
        hits.join("+")
    }

    fn subsets_of_names(mask: usize) -> HashSet<&'static str> {
        (0..7).filter(|i| mask & (1 << i) != 0).map(|i| NAMES[i]).collect()
    }

    #[test]
    fn cex_V10() {
        let parsers = parsers();
        let template_ctx = context_of(&parsers, "probe.py", PROBE_TEXT).unwrap();
        let template = template_ctx.blocks.values().next().unwrap().blocks_with_context[0].block.clone();
        let runtime = tokio::runtime::Builder::new_current_thread().build().unwrap();
        // the names in DETECTOR_FACTORIES are the seven documented ones
        let mut factory_names: Vec<&str> = DETECTOR_FACTORIES.iter().map(|(n, _)| *n).collect();
        factory_names.sort();
        let mut documented = NAMES.to_vec();
        documented.sort();
        if factory_names != documented {
            cex_fail("V10", "DETECTOR_FACTORIES must register exactly the seven documented validators", json!({}), json!(documented), json!(factory_names));
        }

        let mut cases = 0u64;
        let mut run_one = |files: &[(&str, Vec<usize>)], disabled_mask: usize, enabled_mask: usize, cases: &mut u64| {
            let mut map = CexHashMap::new();
            for (file, kinds) in files {
                map.insert(
                    CexPathBuf::from(file),
                    FileBlocks {
                        file_content: PROBE_TEXT.to_string(),
                        blocks_with_context: kinds
                            .iter()
                            .map(|k| {
                                let kind = &KINDS[*k];
                                let attrs: Vec<(&str, &str)> = kind.attrs.iter().map(|a| (*a, attr_value(a))).collect();
                                make_block(&template, &attrs, kind.modified)
                            })
                            .collect(),
                    },
                );
            }
            let context = ValidationContext::new(map);
            let disabled = subsets_of_names(disabled_mask);
            let enabled = subsets_of_names(enabled_mask);
            // ---- oracle (C14 / DESIGN 6 V10) ----
            let mut expected: Vec<String> = NAMES
                .iter()
                .filter(|n| if !enabled.is_empty() { enabled.contains(*n) } else { !disabled.contains(*n) })
                .filter(|n| files.iter().any(|(_, kinds)| kinds.iter().any(|k| fires(&KINDS[*k], n))))
                .map(|n| n.to_string())
                .collect();
            expected.sort();
            // ---- run ----
            let result = detect_validators(&context, DETECTOR_FACTORIES, &disabled, &enabled);
            *cases += 1;
            let observed: Result<Vec<String>, String> = match &result {
                Err(e) => Err(e.to_string()),
                Ok((sync, asyncs)) => {
                    let mut ids: Vec<String> = sync.iter().map(|v| identify_sync(v, &template)).collect();
                    ids.extend(asyncs.iter().map(|v| identify_async(v, &template, &runtime)));
                    ids.sort();
                    Ok(ids)
                }
            };
            if observed.as_ref().ok() != Some(&expected) {
                let mut d: Vec<&str> = disabled.iter().copied().collect();
                d.sort();
                let mut e: Vec<&str> = enabled.iter().copied().collect();
                e.sort();
                cex_fail(
                    "V10",
                    "detect_validators: exactly one validator for every selected detector that fires on some block of the context, none for the others; selection = enabled set if non-empty, else everything not disabled",
                    json!({
                        "files": files.iter().map(|(f, kinds)| json!({"file": f, "blocks": kinds.iter().map(|k| json!({"attributes": KINDS[*k].attrs, "is_content_modified": KINDS[*k].modified})).collect::<Vec<_>>()})).collect::<Vec<_>>(),
                        "disabled": d,
                        "enabled": e,
                    }),
                    json!(expected),
                    json!(observed),
                );
            }
        };

        // The check-ai detector builds an HTTP client every time it fires (~40 ms in a debug
        // build), so the full subset product is run on contexts WITHOUT a check-ai block (there
        // the AI detector never fires), and contexts WITH a check-ai block get every subset in
        // which check-ai is deselected plus a handful in which it is selected.
        const AI_BIT: usize = 1 << 5;
        let ai_kinds = [7usize, 10];
        let non_ai_kinds: Vec<usize> = (0..KINDS.len()).filter(|k| !ai_kinds.contains(k)).collect();
        let ai_selected = |disabled_mask: usize, enabled_mask: usize| if enabled_mask != 0 { enabled_mask & AI_BIT != 0 } else { disabled_mask & AI_BIT == 0 };
        let cheap_enough = |disabled_mask: usize, enabled_mask: usize| {
            let others = (disabled_mask | enabled_mask) & !AI_BIT;
            !ai_selected(disabled_mask, enabled_mask) || others == 0 || others == 0b0000010 || others == 0b1000000 || others == 0b1011111
        };
        // (a) contexts of 0..=2 blocks (same file or two files) x every subset given to --disable
        //     and every subset given to --enable.
        let mut small_contexts: Vec<Vec<(&str, Vec<usize>)>> = vec![vec![]];
        for a in &non_ai_kinds {
            small_contexts.push(vec![("a.py", vec![*a])]);
            for b in &non_ai_kinds {
                small_contexts.push(vec![("a.py", vec![*a, *b])]);
                if a <= b {
                    small_contexts.push(vec![("a.py", vec![*a]), ("b.py", vec![*b])]);
                }
            }
        }
        let mut ai_contexts: Vec<Vec<(&str, Vec<usize>)>> = Vec::new();
        for a in ai_kinds {
            ai_contexts.push(vec![("a.py", vec![a])]);
            for x in [0usize, 1, 8] {
                ai_contexts.push(vec![("a.py", vec![a, x])]);
                ai_contexts.push(vec![("a.py", vec![x, a])]);
                ai_contexts.push(vec![("a.py", vec![x]), ("b.py", vec![a])]);
            }
        }
        for files in small_contexts.iter().chain(ai_contexts.iter()) {
            let has_ai_block = files.iter().any(|(_, kinds)| kinds.iter().any(|k| ai_kinds.contains(k)));
            for mask in 0..128usize {
                if !has_ai_block || cheap_enough(mask, 0) {
                    run_one(files, mask, 0, &mut cases);
                }
                if mask != 0 && (!has_ai_block || cheap_enough(0, mask)) {
                    run_one(files, 0, mask, &mut cases);
                }
            }
        }
        // (b) three and four blocks (the block that makes a detector fire may come last), random,
        //     x subsets of size <= 2 or >= 5.
        let masks: Vec<usize> = (0..128usize).filter(|m| m.count_ones() <= 2 || m.count_ones() >= 5).collect();
        let mut rng = Lcg::from_env();
        for round in 0..130 {
            let n = 3 + rng.next(2) as usize;
            let with_ai = round >= 120;
            let mut kinds: Vec<usize> = (0..n).map(|_| non_ai_kinds[rng.next(non_ai_kinds.len() as u64) as usize]).collect();
            if with_ai {
                *kinds.last_mut().unwrap() = ai_kinds[round % 2];
            }
            let split = rng.next(n as u64 + 1) as usize;
            let files: Vec<(&str, Vec<usize>)> = if split == 0 || split == n {
                vec![("a.py", kinds.clone())]
            } else {
                vec![("a.py", kinds[..split].to_vec()), ("b.py", kinds[split..].to_vec())]
            };
            for mask in &masks {
                if !with_ai || cheap_enough(*mask, 0) {
                    run_one(&files, *mask, 0, &mut cases);
                }
                if *mask != 0 && (!with_ai || cheap_enough(0, *mask)) {
                    run_one(&files, 0, *mask, &mut cases);
                }
            }
        }
        // (c) both sets given (the CLI rejects this earlier; the function lets `enabled` win).
        run_one(&[("a.py", vec![10])], 0b0000010, 0b0000110, &mut cases);
        cex_none(
            "V10",
            cases,
            "real DETECTOR_FACTORIES; contexts of 0..=2 blocks (one or two files) over 9 block kinds without check-ai (each rule alone, affects modified/unmodified, mixed) x all 128 --disable subsets and all 127 --enable subsets; 20 contexts with a check-ai block (alone / all seven rules, first / last / other file) x every subset that deselects check-ai + 10 that select it (the AI detector builds an HTTP client, ~40 ms); 130 random contexts of 3..=4 blocks x subsets of size <=2 or >=5; returned validators identified by running them on probe blocks",
        );
    }

    // ----------------------------------------------------------------------------------------
    // V7s
    // ----------------------------------------------------------------------------------------

    const SYNC_RULES: [&str; 5] = ["affects", "keep-sorted", "keep-unique", "line-pattern", "line-count"];

    /// Sibling blocks in one python file; block i carries the rules in `rules` and either violates
    /// all of them (content b / a / a) or satisfies all of them (content a / b).
    fn v7_file(blocks: &[(usize, bool)]) -> (String, Vec<(usize, usize)>) {
        let mut text = String::new();
        let mut spans = Vec::new();
        for (i, (mask, violating)) in blocks.iter().enumerate() {
            let first_line = text.matches('\n').count() + 1;
            text.push_str(&format!("# <block name=\"n{i}\""));
            for (r, rule) in SYNC_RULES.iter().enumerate() {
                if mask & (1 << r) != 0 {
                    let value = match (*rule, *violating) {
                        ("affects", true) => ":nowhere".to_string(),
                        ("affects", false) => format!(":n{i}"),
                        ("keep-sorted", _) => "asc".to_string(),
                        ("keep-unique", _) => "".to_string(),
                        ("line-pattern", true) => "^b$".to_string(),
                        ("line-pattern", false) => "^[ab]$".to_string(),
                        ("line-count", true) => "<2".to_string(),
                        ("line-count", false) => "<3".to_string(),
                        _ => unreachable!(),
                    };
                    text.push_str(&format!(" {rule}=\"{value}\""));
                }
            }
            text.push_str(">\n");
            text.push_str(if *violating { "b\na\na\n" } else { "a\nb\n" });
            text.push_str("# </block>\n");
            let last_line = text.matches('\n').count();
            spans.push((first_line, last_line));
        }
        (text, spans)
    }

    fn check_v7(parsers: &Parsers, files: &[(&str, Vec<(usize, bool)>)], direct: bool, cases: &mut u64) {
        let built: Vec<(&str, String, Vec<(usize, usize)>)> = files
            .iter()
            .map(|(f, blocks)| {
                let (text, spans) = v7_file(blocks);
                (*f, text, spans)
            })
            .collect();
        let file_refs: Vec<(&str, &str)> = built.iter().map(|(f, t, _)| (*f, t.as_str())).collect();
        let context = context_of_files(parsers, &file_refs).unwrap();
        // ---- oracle (C11): every violation of every rule of every block exactly once ----
        let mut expected: Vec<(String, usize, String)> = Vec::new();
        for (f, blocks) in files {
            for (i, (mask, violating)) in blocks.iter().enumerate() {
                if *violating {
                    for (r, rule) in SYNC_RULES.iter().enumerate() {
                        if mask & (1 << r) != 0 {
                            expected.push((f.to_string(), i, rule.to_string()));
                        }
                    }
                }
            }
        }
        expected.sort();
        // ---- run ----
        let result = if direct {
            let validators: Vec<Box<dyn ValidatorSync>> = vec![
                Box::new(affects::AffectsValidator::new()),
                Box::new(keep_sorted::KeepSortedValidator::new()),
                Box::new(keep_unique::KeepUniqueValidator::new()),
                Box::new(line_pattern::LinePatternValidator::new()),
                Box::new(line_count::LineCountValidator::new()),
            ];
            run_sync_validators(CexArc::clone(&context), validators)
        } else {
            let (sync, asyncs) = detect_validators(&context, DETECTOR_FACTORIES, &HashSet::new(), &HashSet::new()).unwrap();
            run(CexArc::clone(&context), sync, asyncs)
        };
        *cases += 1;
        let observed: Option<Vec<(String, usize, String)>> = result.as_ref().ok().map(|m| {
            let mut v = Vec::new();
            for (f, vs) in m {
                let spans = &built.iter().find(|(name, _, _)| CexPathBuf::from(name) == *f).unwrap().2;
                for x in vs {
                    let line = x.range.start.line;
                    let idx = spans.iter().position(|(a, b)| *a <= line && line <= *b).unwrap_or(usize::MAX);
                    v.push((f.display().to_string(), idx, x.code.clone()));
                }
            }
            v.sort();
            v
        });
        if observed.as_ref() != Some(&expected) {
            cex_fail(
                "V7s",
                "running the sync validators: the merged result holds every violation of every rule of every block exactly once, under its file",
                json!({
                    "files": built.iter().map(|(f, t, _)| json!({"file_name": f, "file_text": t})).collect::<Vec<_>>(),
                    "entry_point": if direct { "run_sync_validators with the five sync validators" } else { "detect_validators + validators::run" },
                }),
                json!(expected.iter().map(|(f, i, c)| json!({"file": f, "block_index": i, "code": c})).collect::<Vec<_>>()),
                match &result {
                    Err(e) => json!({"error": e.to_string()}),
                    Ok(_) => json!(observed.unwrap().iter().map(|(f, i, c)| json!({"file": f, "block_index": i, "code": c})).collect::<Vec<_>>()),
                },
            );
        }
    }

    #[test]
    fn cex_V7s() {
        let parsers = parsers();
        let mut cases = 0u64;
        // (a) one file, one block: every rule subset, violating or not, both entry points.
        for mask in 0..32usize {
            for violating in [false, true] {
                for direct in [false, true] {
                    check_v7(&parsers, &[("a.py", vec![(mask, violating)])], direct, &mut cases);
                }
            }
        }
        // (b) one file with two blocks / two files with one block each: all pairs of rule subsets, both violating;
        //     every fourth pair also with a satisfied partner.
        let mut flip = 0usize;
        for m1 in 0..32usize {
            for m2 in 0..32usize {
                flip += 1;
                let second_violates = flip % 4 != 0;
                check_v7(&parsers, &[("a.py", vec![(m1, true), (m2, second_violates)])], flip % 2 == 0, &mut cases);
                check_v7(&parsers, &[("a.py", vec![(m1, true)]), ("dir/b.py", vec![(m2, second_violates)])], flip % 2 == 1, &mut cases);
            }
        }
        // (c) random contexts of 2..=3 files x 1..=3 blocks.
        let mut rng = Lcg::from_env();
        let names = ["a.py", "dir/b.py", "c.py"];
        for _ in 0..400 {
            let nfiles = 2 + rng.next(2) as usize;
            let files: Vec<(&str, Vec<(usize, bool)>)> = (0..nfiles)
                .map(|f| {
                    let nblocks = 1 + rng.next(3) as usize;
                    (names[f], (0..nblocks).map(|_| (rng.next(32) as usize, rng.next(3) != 0)).collect())
                })
                .collect();
            check_v7(&parsers, &files, rng.next(2) == 0, &mut cases);
        }
        cex_none(
            "V7s",
            cases,
            "real sync validators; 1 block x all 32 rule subsets x {violating, satisfied}; all 32x32 pairs of rule subsets as two blocks of one file and as one block in each of two files; 400 random contexts of 2..=3 files x 1..=3 blocks; both entry points (run_sync_validators directly, detect_validators + run)",
        );
    }

    // ----------------------------------------------------------------------------------------
    // V7m: validators::run with BOTH sync and async validators (fakes with fixed outputs)
    // ----------------------------------------------------------------------------------------

    /// What a fake validator returns: None = Err, Some(list of (file, how many violations)).
    type FakeOutput = Option<&'static [(&'static str, usize)]>;

    const FAKE_OUTPUTS: [FakeOutput; 7] = [
        None,
        Some(&[]),
        Some(&[("a.py", 1)]),
        Some(&[("dir/b.py", 1)]),
        Some(&[("a.py", 1), ("dir/b.py", 2)]),
        Some(&[("a.py", 2)]),
        Some(&[("only/async-or-sync.rs", 1)]),
    ];

    fn fake_result(id: &str, output: FakeOutput) -> anyhow::Result<HashMap<PathBuf, Vec<Violation>>> {
        let Some(files) = output else {
            return Err(anyhow::anyhow!("fake validator {id} failed"));
        };
        Ok(files
            .iter()
            .map(|(file, n)| {
                (
                    PathBuf::from(file),
                    (0..*n)
                        .map(|k| {
                            Violation::new(
                                ViolationRange::new(Position::new(1 + k, 1), Position::new(1 + k, 2)),
                                format!("{id}#{k}"),
                                "fake".to_string(),
                                BlockSeverity::Error,
                                None,
                            )
                        })
                        .collect(),
                )
            })
            .collect())
    }

    struct FakeSync {
        id: String,
        output: FakeOutput,
    }

    impl ValidatorSync for FakeSync {
        fn validate(&self, _context: Arc<ValidationContext>) -> anyhow::Result<HashMap<PathBuf, Vec<Violation>>> {
            fake_result(&self.id, self.output)
        }
    }

    struct FakeAsync {
        id: String,
        output: FakeOutput,
        yields: usize,
    }

    #[async_trait]
    impl ValidatorAsync for FakeAsync {
        async fn validate(&self, _context: Arc<ValidationContext>) -> anyhow::Result<HashMap<PathBuf, Vec<Violation>>> {
            for _ in 0..self.yields {
                tokio::task::yield_now().await;
            }
            fake_result(&self.id, self.output)
        }
    }

    #[test]
    fn cex_V7m() {
        let context = Arc::new(ValidationContext::new(HashMap::new()));
        let mut cases = 0u64;
        let n = FAKE_OUTPUTS.len();
        // every assignment of outputs to (0..=2 sync) + (0..=2 async) validators
        for n_sync in 0..=2usize {
            for n_async in 0..=2usize {
                let total = n_sync + n_async;
                for code in 0..n.pow(total as u32) {
                    let mut c = code;
                    let picks: Vec<usize> = (0..total)
                        .map(|_| {
                            let v = c % n;
                            c /= n;
                            v
                        })
                        .collect();
                    // thin out the 4-validator layer: keep assignments that contain an async-only file or an error, and every 5th other
                    if total == 4 && !(picks.contains(&0) || picks[2..].contains(&6) || code % 5 == 0) {
                        continue;
                    }
                    let sync: Vec<Box<dyn ValidatorSync>> = (0..n_sync)
                        .map(|i| Box::new(FakeSync { id: format!("sync{i}"), output: FAKE_OUTPUTS[picks[i]] }) as Box<dyn ValidatorSync>)
                        .collect();
                    let asyncs: Vec<Box<dyn ValidatorAsync>> = (0..n_async)
                        .map(|i| Box::new(FakeAsync { id: format!("async{i}"), output: FAKE_OUTPUTS[picks[n_sync + i]], yields: (code + i) % 3 }) as Box<dyn ValidatorAsync>)
                        .collect();
                    // ---- oracle (C11 / C13): any failing validator fails the run; else every violation exactly once under its file ----
                    let mut expected: Option<Vec<(String, String)>> = Some(Vec::new());
                    for (i, p) in picks.iter().enumerate() {
                        let id = if i < n_sync { format!("sync{i}") } else { format!("async{}", i - n_sync) };
                        match (FAKE_OUTPUTS[*p], expected.as_mut()) {
                            (None, _) => expected = None,
                            (Some(files), Some(e)) => {
                                for (file, k) in files {
                                    for j in 0..*k {
                                        e.push((file.to_string(), format!("{id}#{j}")));
                                    }
                                }
                            }
                            _ => {}
                        }
                    }
                    if let Some(e) = expected.as_mut() {
                        e.sort();
                    }
                    let result = run(Arc::clone(&context), sync, asyncs);
                    cases += 1;
                    let observed: Option<Vec<(String, String)>> = result.as_ref().ok().map(|m| {
                        let mut v: Vec<(String, String)> = m.iter().flat_map(|(f, vs)| vs.iter().map(move |x| (f.display().to_string(), x.code.clone()))).collect();
                        v.sort();
                        v
                    });
                    // files with no violation may be absent or present with an empty list; compare the violations only
                    if expected != observed {
                        let describe = |p: &usize| match FAKE_OUTPUTS[*p] {
                            None => json!("Err"),
                            Some(files) => json!(files.iter().map(|(f, k)| json!({"file": f, "violations": k})).collect::<Vec<_>>()),
                        };
                        cex_fail(
                            "V7m",
                            "validators::run with sync and async validators: an Err from any validator fails the run; otherwise the merged map holds every violation of every validator exactly once under its file - also for files that only an async validator reports",
                            json!({
                                "sync_validators_return": picks[..n_sync].iter().map(describe).collect::<Vec<_>>(),
                                "async_validators_return": picks[n_sync..].iter().map(describe).collect::<Vec<_>>(),
                            }),
                            json!(expected.map_or(json!({"error": "any"}), |e| json!(e))),
                            json!(match &result { Err(e) => json!({"error": e.to_string()}), Ok(_) => json!(observed) }),
                        );
                    }
                }
            }
        }
        cex_none(
            "V7m",
            cases,
            "fake validators with fixed outputs: 0..=2 sync x 0..=2 async validators, each returning one of {Err, nothing, 1 on a.py, 1 on dir/b.py, 1+2 on both, 2 on a.py, 1 on a file nobody else reports}; all assignments up to 3 validators, the 4-validator layer thinned (all with an error or an async-only file, every 5th other); async fakes yield 0..=2 times before answering",
        );
    }
}
