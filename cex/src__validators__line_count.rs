
// ---------------------------------------------------------------------------------------------
// verif_cex: small-scope exhaustive differential harnesses for src/validators/line_count.rs
// units: V4 V4p V4a                (see /verif/cex/README.md, /verif/cex/MAP.json)
// This text is appended verbatim to a scratch copy of src/validators/line_count.rs.
// ---------------------------------------------------------------------------------------------
#[cfg(test)]
#[allow(unused_imports, dead_code, clippy::all)]
mod verif_cex {
    use super::*;
    use crate::blocks::{Block, BlockWithContext, FileBlocks};
    use crate::validators::{ValidationContext, ValidatorSync, Violation};
    use serde_json::{Value, json};
    use std::collections::HashMap as CexHashMap;
    use std::ffi::OsString;
    use std::path::PathBuf as CexPathBuf;
    use std::sync::Arc as CexArc;

    fn cex_fail(unit: &str, what: &str, input: Value, expected: Value, observed: Value) -> ! {
        println!(
            "VERIF-CEX {}",
            json!({"unit": unit, "what": what, "input": input, "expected": expected, "observed": observed})
        );
        panic!("counterexample for unit {unit}: {what}");
    }

    fn cex_none(unit: &str, cases: u64, bound: &str) {
        println!(
            "VERIF-CEX-NONE {}",
            json!({"unit": unit, "cases": cases, "bound": bound})
        );
    }

    struct Lcg(u64);
    impl Lcg {
        fn from_env() -> Self {
            let seed = std::env::var("VERIF_SEED")
                .ok()
                .and_then(|s| s.parse::<u64>().ok())
                .unwrap_or(1);
            Lcg(seed.wrapping_mul(0x9E3779B97F4A7C15).wrapping_add(0x1234567))
        }
        fn next(&mut self, n: u64) -> u64 {
            self.0 = self.0.wrapping_mul(6364136223846793005).wrapping_add(1442695040888963407);
            (self.0 >> 33) % n
        }
    }

    /// A generated source file with one block; `line_offsets[i]` is the byte offset in `text` at
    /// which the i-th generated content line starts (ground truth by construction).
    struct Built {
        file_name: &'static str,
        text: String,
        line_offsets: Vec<usize>,
        /// byte offsets of the start tag's `<` and `>` in `text`
        tag_lt: usize,
        tag_gt: usize,
    }

    const LAYOUTS: usize = 6;

    fn layout_name(layout: usize) -> &'static str {
        [
            "python: `# <block ..>` / lines / `# </block>`",
            "rust: start tag's block comment continues for two lines after the tag, then lines, `// </block>`",
            "rust: one-line block comment, content starts on the tag's own line, `/* </block> */` on its own line",
            "rust: code before, indented `// <block ..>`, end tag `/* </block> */` shares the last content line",
            "rust: tag on the last line of a three-line block comment, content starts on that line",
            "rust: multi-line start tag (attributes on separate lines) inside a block comment, then lines",
        ][layout]
    }

    /// Builds a file holding one block with the given start-tag attribute text and content lines.
    fn build(layout: usize, attrs: &str, lines: &[&str]) -> Built {
        let sp = if attrs.is_empty() { "" } else { " " };
        let (file_name, head, first_sep, tail): (&'static str, String, &str, &str) = match layout {
            0 => ("f.py", format!("# <block{sp}{attrs}>"), "\n", "\n# </block>\n"),
            1 => ("f.rs", format!("/* <block{sp}{attrs}>\n   note\n   more */"), "\n", "\n// </block>\n"),
            2 => ("f.rs", format!("/* <block{sp}{attrs}> */"), " ", "\n/* </block> */\n"),
            3 => ("f.rs", format!("fn x() {{}}\n\n    // <block{sp}{attrs}>"), "\n", " /* </block> */\nfn y() {}\n"),
            4 => ("f.rs", format!("/*\n note\n  <block{sp}{attrs}> */"), " ", "\n// </block>\n"),
            5 => ("f.rs", format!("  /* <block\n{sp}{}\n> */", attrs.replace("\" ", "\"\n   ")), "\n", "\n  // </block>\n"),
            _ => unreachable!(),
        };
        let tag_lt = head.find("<block").unwrap();
        let tag_gt = head.rfind('>').unwrap();
        let mut text = head;
        let mut line_offsets = Vec::new();
        for (i, l) in lines.iter().enumerate() {
            text.push_str(if i == 0 { first_sep } else { "\n" });
            line_offsets.push(text.len());
            text.push_str(l);
        }
        if lines.is_empty() {
            text.push_str(first_sep);
        }
        text.push_str(tail);
        Built { file_name, text, line_offsets, tag_lt, tag_gt }
    }

    /// Byte offset -> (1-based line, 1-based byte column), by counting newlines in the file text.
    fn line_col(text: &str, byte: usize) -> (usize, usize) {
        let before = &text[..byte];
        let line = before.matches('\n').count() + 1;
        let line_start = before.rfind('\n').map_or(0, |p| p + 1);
        (line, byte - line_start + 1)
    }

    type Parsers = CexHashMap<OsString, crate::language_parsers::LanguageParser>;

    fn parsers() -> Parsers {
        crate::language_parsers::language_parsers().unwrap()
    }

    /// Parses `text` with the grammar registered for the file's extension and wraps every block
    /// (all marked content-modified) into a one-file validation context.
    fn context_of(parsers: &Parsers, file_name: &str, text: &str) -> Result<CexArc<ValidationContext>, String> {
        let ext = file_name.rsplit('.').next().unwrap();
        let parser = parsers.get(&OsString::from(ext)).unwrap();
        let blocks = parser.borrow_mut().parse(text).map_err(|e| e.to_string())?;
        Ok(context_from_blocks(file_name, text, blocks))
    }

    fn context_from_blocks(file_name: &str, text: &str, blocks: Vec<Block>) -> CexArc<ValidationContext> {
        CexArc::new(ValidationContext::new(CexHashMap::from([(
            CexPathBuf::from(file_name),
            FileBlocks {
                file_content: text.to_string(),
                blocks_with_context: blocks
                    .into_iter()
                    .map(|block| BlockWithContext { block, _is_start_tag_modified: false, is_content_modified: true })
                    .collect(),
            },
        )])))
    }

    fn violation_json(v: &Violation) -> Value {
        json!({
            "code": v.code,
            "range": {"start": {"line": v.range.start.line, "character": v.range.start.character},
                      "end": {"line": v.range.end.line, "character": v.range.end.character}},
            "severity": serde_json::to_value(v.severity).unwrap(),
            "data": v.data,
            "message": v.message,
        })
    }

    /// Outcome of a validator run, flattened: Err(message) or the list of (file, violation json).
    fn outcome_json(r: &anyhow::Result<CexHashMap<CexPathBuf, Vec<Violation>>>) -> Value {
        match r {
            Err(e) => json!({"error": e.to_string()}),
            Ok(m) => {
                let mut files: Vec<_> = m.iter().collect();
                files.sort_by(|a, b| a.0.cmp(b.0));
                json!({"violations": files.iter().map(|(f, vs)| json!({"file": f.display().to_string(), "diagnostics": vs.iter().map(violation_json).collect::<Vec<_>>()})).collect::<Vec<_>>()})
            }
        }
    }

    /// Expected outcome of a one-block run for the "designates exactly this text" validators.
    #[derive(Debug, Clone, PartialEq)]
    enum Expect {
        /// No diagnostic.
        Clean,
        /// Exactly one diagnostic whose range is (line, first byte column) ..= (line, last byte column), 1-based.
        At { line: usize, col_start: usize, col_end: usize, key: String },
        /// validate() returns Err.
        Error,
    }

    fn expect_json(e: &Expect) -> Value {
        match e {
            Expect::Clean => json!({"violations": []}),
            Expect::Error => json!({"error": "any"}),
            Expect::At { line, col_start, col_end, key } => json!({"violations": [{"range": {"start": {"line": line, "character": col_start}, "end": {"line": line, "character": col_end}}, "text_at_range": key}]}),
        }
    }

    /// Compares the validator's result with the expectation; `code` is the diagnostic code the
    /// single violation must carry. The range check is C10: the reported 1-based (line, byte
    /// column) pair must delimit exactly the offending key in the file text.
    fn agrees(
        expected: &Expect,
        observed: &anyhow::Result<CexHashMap<CexPathBuf, Vec<Violation>>>,
        code: &str,
        file_name: &str,
        text: &str,
    ) -> bool {
        match (expected, observed) {
            (Expect::Error, Err(_)) => true,
            (Expect::Clean, Ok(m)) => m.values().all(|v| v.is_empty()),
            (Expect::At { line, col_start, col_end, key }, Ok(m)) => {
                let all: Vec<(&CexPathBuf, &Violation)> = m.iter().flat_map(|(f, vs)| vs.iter().map(move |v| (f, v))).collect();
                if all.len() != 1 {
                    return false;
                }
                let (f, v) = all[0];
                if f != &CexPathBuf::from(file_name) || v.code != code {
                    return false;
                }
                if (v.range.start.line, v.range.start.character, v.range.end.line, v.range.end.character)
                    != (*line, *col_start, *line, *col_end)
                {
                    return false;
                }
                // Independent re-check against the file bytes.
                let file_line = text.split('\n').nth(*line - 1).unwrap_or("");
                file_line.as_bytes().get(col_start - 1..*col_end) == Some(key.as_bytes())
            }
            _ => false,
        }
    }

    /// A diagnostic location expected in a multi-block / multi-file run.
    #[derive(Debug, Clone, PartialEq, Eq, PartialOrd, Ord)]
    struct Loc {
        file: String,
        line: usize,
        col_start: usize,
        col_end: usize,
        key: String,
    }

    fn locs_json(locs: &Option<Vec<Loc>>) -> Value {
        match locs {
            None => json!({"error": "any"}),
            Some(v) => json!({"violations": v.iter().map(|l| json!({"file": l.file, "range": {"start": {"line": l.line, "character": l.col_start}, "end": {"line": l.line, "character": l.col_end}}, "text_at_range": l.key})).collect::<Vec<_>>()}),
        }
    }

    /// Multi-block version of `agrees`: `expected` = None for Err, else the exact multiset of
    /// diagnostics (file, line, 1-based inclusive byte columns, text found there).
    fn agrees_all(
        expected: &Option<Vec<Loc>>,
        observed: &anyhow::Result<CexHashMap<CexPathBuf, Vec<Violation>>>,
        code: &str,
        texts: &[(&str, &str)],
    ) -> bool {
        match (expected, observed) {
            (None, Err(_)) => true,
            (Some(exp), Ok(m)) => {
                let mut obs: Vec<(String, usize, usize, usize, usize)> = Vec::new();
                for (f, vs) in m {
                    for v in vs {
                        if v.code != code {
                            return false;
                        }
                        obs.push((f.display().to_string(), v.range.start.line, v.range.start.character, v.range.end.line, v.range.end.character));
                    }
                }
                obs.sort();
                let mut exp_sorted: Vec<(String, usize, usize, usize, usize)> =
                    exp.iter().map(|l| (l.file.clone(), l.line, l.col_start, l.line, l.col_end)).collect();
                exp_sorted.sort();
                if obs != exp_sorted {
                    return false;
                }
                exp.iter().all(|l| {
                    let text = texts.iter().find(|(f, _)| *f == l.file).map(|(_, t)| *t).unwrap_or("");
                    let file_line = text.split('\n').nth(l.line - 1).unwrap_or("");
                    file_line.as_bytes().get(l.col_start - 1..l.col_end) == Some(l.key.as_bytes())
                })
            }
            _ => false,
        }
    }

    /// Several sibling blocks in one python file: `# <block attrs>` / lines / `# </block>` each.
    /// Returns the text and, per block, the byte offsets of its generated content lines.
    fn build_siblings(blocks: &[(&str, Vec<&str>)]) -> (String, Vec<Vec<usize>>) {
        let mut text = String::from("import os\n");
        let mut all = Vec::new();
        for (attrs, lines) in blocks {
            let sp = if attrs.is_empty() { "" } else { " " };
            text.push_str(&format!("# <block{sp}{attrs}>\n"));
            let mut offs = Vec::new();
            for l in lines {
                offs.push(text.len());
                text.push_str(l);
                text.push('\n');
            }
            text.push_str("# </block>\n\n");
            all.push(offs);
        }
        (text, all)
    }

    /// One validation context over several files, every block marked content-modified.
    fn context_of_files(parsers: &Parsers, files: &[(&str, &str)]) -> Result<CexArc<ValidationContext>, String> {
        let mut map = CexHashMap::new();
        for (name, text) in files {
            let ext = name.rsplit('.').next().unwrap();
            let parser = parsers.get(&OsString::from(ext)).unwrap();
            let blocks = parser.borrow_mut().parse(text).map_err(|e| e.to_string())?;
            map.insert(
                CexPathBuf::from(name),
                FileBlocks {
                    file_content: text.to_string(),
                    blocks_with_context: blocks
                        .into_iter()
                        .map(|block| BlockWithContext { block, _is_start_tag_modified: false, is_content_modified: true })
                        .collect(),
                },
            );
        }
        Ok(CexArc::new(ValidationContext::new(map)))
    }

    const OPS: [&str; 5] = ["<", "<=", "==", ">=", ">"];

    fn ref_holds(op: &str, actual: u64, bound: u64) -> bool {
        match op {
            "<" => actual < bound,
            "<=" => actual <= bound,
            "==" => actual == bound,
            ">=" => actual >= bound,
            ">" => actual > bound,
            _ => unreachable!(),
        }
    }

    /// C09 / DESIGN 6 V4: `trim(s)` = operator (longest first) . ws* . numeral; anything else is malformed.
    fn ref_parse(s: &str) -> Option<(&'static str, u64)> {
        let t = s.trim_matches(char::is_whitespace);
        let op = ["<=", ">=", "==", "<", ">"].into_iter().find(|op| t.starts_with(*op))?;
        let rest = t[op.len()..].trim_matches(char::is_whitespace);
        if rest.is_empty() || !rest.chars().all(|c| c.is_ascii_digit()) {
            return None;
        }
        let mut v: u128 = 0;
        for c in rest.chars() {
            v = v * 10 + (c as u8 - b'0') as u128;
            if v > u64::MAX as u128 {
                return None;
            }
        }
        Some((op, v as u64))
    }

    fn is_blank(line: &str) -> bool {
        line.chars().all(char::is_whitespace)
    }

    /// Checks one validate() outcome: silent iff `actual op bound` holds; else exactly one
    /// `line-count` diagnostic spanning the start tag `<`..`>` and carrying (actual, op, bound).
    fn outcome_ok(
        observed: &anyhow::Result<CexHashMap<CexPathBuf, Vec<Violation>>>,
        built: &Built,
        op: &str,
        bound: u64,
        actual: u64,
    ) -> Result<(), Value> {
        let (lt_line, lt_col) = line_col(&built.text, built.tag_lt);
        let (gt_line, gt_col) = line_col(&built.text, built.tag_gt);
        let holds = ref_holds(op, actual, bound);
        let expected = if holds {
            json!({"violations": []})
        } else {
            json!({"violations": [{"code": "line-count", "range": {"start": {"line": lt_line, "character": lt_col}, "end": {"line": gt_line, "character": gt_col}}, "data": {"actual": actual, "op": op, "expected": bound}}]})
        };
        let ok = match observed {
            Err(_) => false,
            Ok(m) => {
                let all: Vec<&Violation> = m.values().flatten().collect();
                if holds {
                    all.is_empty()
                } else {
                    all.len() == 1
                        && m.contains_key(&CexPathBuf::from(built.file_name))
                        && all[0].code == "line-count"
                        && (all[0].range.start.line, all[0].range.start.character) == (lt_line, lt_col)
                        && (all[0].range.end.line, all[0].range.end.character) == (gt_line, gt_col)
                        && all[0].data == Some(json!({"actual": actual, "op": op, "expected": bound}))
                }
            }
        };
        if ok { Ok(()) } else { Err(expected) }
    }

    fn check_outcome(
        unit: &str,
        what: &str,
        input: Value,
        observed: &anyhow::Result<CexHashMap<CexPathBuf, Vec<Violation>>>,
        built: &Built,
        op: &str,
        bound: u64,
        actual: u64,
    ) {
        if let Err(expected) = outcome_ok(observed, built, op, bound, actual) {
            cex_fail(unit, what, input, expected, outcome_json(observed));
        }
    }

    const WHAT: &str = "line-count: silent iff (number of non-blank content lines) OP N holds; otherwise exactly one diagnostic spanning the start tag from `<` to `>` and carrying actual, op, expected";

    fn run_case(parsers: &Parsers, layout: usize, expr: &str, op: &str, bound: u64, lines: &[&str], cases: &mut u64) {
        let built = build(layout, &format!("line-count=\"{expr}\""), lines);
        let actual = lines.iter().filter(|l| !is_blank(l)).count() as u64;
        let input = json!({
            "file_name": built.file_name,
            "file_text": built.text,
            "layout": layout_name(layout),
            "line-count": expr,
            "content_lines": lines,
        });
        let context = match context_of(parsers, built.file_name, &built.text) {
            Ok(c) => c,
            Err(e) => cex_fail("V4", "generated one-block file failed to parse", input, json!("one block"), json!(e)),
        };
        let observed = LineCountValidator::new().validate(context);
        *cases += 1;
        check_outcome("V4", WHAT, input, &observed, &built, op, bound, actual);
    }

    fn sequences(alphabet: &[&'static str], max_len: usize) -> Vec<Vec<&'static str>> {
        let mut out: Vec<Vec<&'static str>> = vec![vec![]];
        let mut layer: Vec<Vec<&'static str>> = vec![vec![]];
        for _ in 0..max_len {
            let mut next = Vec::new();
            for s in &layer {
                for a in alphabet {
                    let mut t = s.clone();
                    t.push(*a);
                    next.push(t);
                }
            }
            out.extend(next.iter().cloned());
            layer = next;
        }
        out
    }

    #[test]
    fn cex_V4() {
        let parsers = parsers();
        let mut cases = 0u64;
        // attributes as the tag parser yields them, per expression (cached)
        let mut attr_cache: CexHashMap<String, CexHashMap<String, String>> = CexHashMap::new();
        // (a) layout 0, fast path (one parse per line sequence, block re-labelled per expression):
        //     every sequence of <= 7 lines over {x, '', '  '} x 5 operators x N in 0..=6.
        for seq in sequences(&["x", "", "  "], 7) {
            let built = build(0, "line-count", &seq);
            let parsed = match context_of(&parsers, built.file_name, &built.text) {
                Ok(c) => c,
                Err(e) => cex_fail("V4", "generated one-block file failed to parse", json!({"file_text": built.text}), json!("one block"), json!(e)),
            };
            let block0 = parsed.blocks.values().next().unwrap().blocks_with_context[0].block.clone();
            let actual = seq.iter().filter(|l| !is_blank(l)).count() as u64;
            for op in OPS {
                for bound in 0..=6u64 {
                    let expr = format!("{op}{bound}");
                    let attributes = attr_cache
                        .entry(expr.clone())
                        .or_insert_with(|| {
                            let b = build(0, &format!("line-count=\"{expr}\""), &[]);
                            let c = context_of(&parsers, b.file_name, &b.text).unwrap();
                            c.blocks.values().next().unwrap().blocks_with_context[0].block.attributes.clone()
                        })
                        .clone();
                    let mut block = block0.clone();
                    block.attributes = attributes;
                    let context = context_from_blocks(built.file_name, &built.text, vec![block]);
                    let observed = LineCountValidator::new().validate(context);
                    cases += 1;
                    if let Err(expected) = outcome_ok(&observed, &built, op, bound, actual) {
                        // Re-run through the full path (real tag text for this expression) to report it.
                        let mut dummy = 0u64;
                        run_case(&parsers, 0, &expr, op, bound, &seq, &mut dummy);
                        cex_fail(
                            "V4",
                            "harness inconsistency: the re-labelled block disagreed with the oracle but the fully parsed file did not",
                            json!({"file_text": built.text, "line-count": expr}),
                            expected,
                            outcome_json(&observed),
                        );
                    }
                }
            }
        }
        // (b) every layout (content starting on the tag's line or not, comment continuing after
        //     the tag, end tag sharing the last content line, multi-line tag): every sequence of
        //     <= 4 lines over {x, '', ' \t'} x 5 operators x N in {0,1,2,3} x 2 spellings.
        for layout in 0..LAYOUTS {
            for seq in sequences(&["x", "", " \t"], 4) {
                for op in OPS {
                    for bound in 0..=3u64 {
                        let expr = if (bound + seq.len() as u64) % 2 == 0 { format!("{op}{bound}") } else { format!(" {op}  {bound} ") };
                        run_case(&parsers, layout, &expr, op, bound, &seq, &mut cases);
                    }
                }
            }
        }
        // (c) blocks without any content count zero lines; nested blocks' tag lines count.
        for op in OPS {
            for bound in 0..=2u64 {
                for (file_name, text, actual) in [
                    ("f.rs", format!("/* <block line-count=\"{op}{bound}\"> *//* </block> */\n"), 0u64),
                    ("f.rs", format!("/* <block line-count=\"{op}{bound}\"> </block> */\n"), 0),
                    ("f.py", format!("# <block line-count=\"{op}{bound}\">\n# </block>\n"), 0),
                    ("f.py", format!("# <block line-count=\"{op}{bound}\">\n# <block>\n# </block>\n# </block>\n"), 2),
                    ("f.py", format!("# <block line-count=\"{op}{bound}\">\nx\n# <block name=\"i\">\n\ny\n# </block>\n# </block>\n"), 4),
                ] {
                    let context = context_of(&parsers, file_name, &text).unwrap();
                    // keep only the outer block: the inner one carries no rule anyway
                    let observed = LineCountValidator::new().validate(context);
                    let tag = format!("<block line-count=\"{op}{bound}\">");
                    let lt = text.find(&tag).unwrap();
                    let gt = lt + tag.len() - 1;
                    let built = Built { file_name, text: text.clone(), line_offsets: vec![], tag_lt: lt, tag_gt: gt };
                    cases += 1;
                    check_outcome(
                        "V4",
                        "line-count: a block with no content counts zero lines; tag lines of nested blocks count like any other line",
                        json!({"file_name": file_name, "file_text": text, "line-count": format!("{op}{bound}")}),
                        &observed,
                        &built,
                        op,
                        bound,
                        actual,
                    );
                }
            }
        }
        // (d) malformed expressions are errors (C13).
        for expr in ["", "5", "=5", "< =5", "<>5", "<5x", "< -1", "!=5", "<", "five", "<= 18446744073709551616"] {
            let built = build(0, &format!("line-count=\"{expr}\""), &["x"]);
            let context = context_of(&parsers, built.file_name, &built.text).unwrap();
            let observed = LineCountValidator::new().validate(context);
            cases += 1;
            if observed.is_ok() {
                cex_fail("V4", "line-count: a malformed expression is an error", json!({"file_name": built.file_name, "file_text": built.text, "line-count": expr}), json!({"error": "any"}), outcome_json(&observed));
            }
        }
        // (e) large N and large blocks (random, seeded from VERIF_SEED).
        let mut rng = Lcg::from_env();
        for _ in 0..400 {
            let len = rng.next(60) as usize;
            let seq: Vec<&str> = (0..len).map(|_| ["x", "", "  ", "\tx y "][rng.next(4) as usize]).collect();
            let actual = seq.iter().filter(|l| !is_blank(l)).count() as u64;
            let bound = match rng.next(4) {
                0 => actual,
                1 => actual + 1,
                2 => actual.saturating_sub(1),
                _ => rng.next(1000),
            };
            let op = OPS[rng.next(5) as usize];
            run_case(&parsers, rng.next(LAYOUTS as u64) as usize, &format!("{op} {bound}"), op, bound, &seq, &mut cases);
        }
        cex_none(
            "V4",
            cases,
            "all sequences of <=7 lines over {x,'','  '} x {<,<=,==,>=,>} x N in 0..=6 (python layout); 6 comment layouts x all sequences of <=4 lines x 5 operators x N in 0..=3 x 2 spellings; 75 no-content / nested cases; 11 malformed expressions; 400 random blocks of 0..=59 lines with N near the count or up to 999",
        );
    }

    #[test]
    fn cex_V4p() {
        // Grammar-generated spellings: ws* OP ws* NUMERAL ws*, plus near misses.
        let ws = ["", " ", "  ", "\t"];
        let numerals = ["0", "1", "5", "6", "10", "007", "50", "18446744073709551615", "18446744073709551616", "99999999999999999999999"];
        let mut exprs: Vec<String> = Vec::new();
        for a in ws {
            for op in ["<", "<=", "==", ">=", ">", "=", "=<", "=>", "!=", "<>", "", "<<", "===", "< =", "> =", "= ="] {
                for b in ws {
                    for n in numerals {
                        for c in ws {
                            exprs.push(format!("{a}{op}{b}{n}{c}"));
                        }
                    }
                }
            }
        }
        for junk in ["", " ", "<", "<=", "==", ">=", ">", "< x", "<5x", "<x5", "< 5 6", "< 5,6", "< -1", "<- 1", "< 1.5", "<1e3", "< 0x10", "five", "<\u{0665}", "\u{2264}5", "< ", "<=\n5", "<\n=5", "< 5 <", "lt 5", "<5>"] {
            exprs.push(junk.to_string());
        }
        let mut cases = 0u64;
        for e in &exprs {
            let expected = ref_parse(e);
            let observed = parse_constraint(e).ok().map(|(op, n)| (op.as_str(), n as u64));
            cases += 1;
            if expected != observed {
                cex_fail(
                    "V4p",
                    "parse_constraint(s) is Ok((op, n)) exactly when trim(s) = operator (longest first) . optional blanks . decimal numeral that fits; else Err",
                    json!({"line-count": e}),
                    json!(expected.map_or(json!("Err"), |(o, n)| json!({"op": o, "n": n}))),
                    json!(observed.map_or(json!("Err"), |(o, n)| json!({"op": o, "n": n}))),
                );
            }
        }
        cex_none("V4p", cases, "4 leading blanks x 16 operator-like tokens x 4 inner blanks x 10 numerals (incl. leading zeros, usize::MAX, overflow) x 4 trailing blanks + 26 near misses; `+5`-style signed numerals are NOT enumerated");
    }

    #[test]
    fn cex_V4a() {
        let table = [(Op::Lt, "<"), (Op::Le, "<="), (Op::Eq, "=="), (Op::Ge, ">="), (Op::Gt, ">")];
        let mut cases = 0u64;
        for (op, token) in table {
            cases += 1;
            if op.as_str() != token {
                cex_fail("V4a", "Op::as_str must print the operator token the expression was written with", json!({"op": token}), json!(token), json!(op.as_str()));
            }
            // round trip through the parser and back
            for n in [0usize, 3, 12] {
                cases += 1;
                let round = parse_constraint(&format!("{}{n}", op.as_str())).ok().map(|(o, m)| (o.as_str(), m));
                if round != Some((token, n)) {
                    cex_fail(
                        "V4a",
                        "printing an operator and parsing it back must give the same operator and bound",
                        json!({"line-count": format!("{}{n}", op.as_str())}),
                        json!({"op": token, "n": n}),
                        json!(round.map_or(json!("Err"), |(o, m)| json!({"op": o, "n": m}))),
                    );
                }
            }
        }
        cex_none("V4a", cases, "the 5 operators: token table and print/parse round trip with N in {0,3,12}");
    }
}
