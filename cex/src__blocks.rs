
// ---------------------------------------------------------------------------------------------
// verif_cex: small-scope exhaustive differential harnesses for src/blocks.rs
// units: B1 B2 B3 B4 V5 V9 B5 B6 B7 L1 PCi         (see /verif/cex/README.md, /verif/cex/MAP.json)
// This text is appended verbatim to a scratch copy of src/blocks.rs.
// ---------------------------------------------------------------------------------------------
#[cfg(test)]
#[allow(unused_imports, dead_code, clippy::all)]
mod verif_cex {
    use super::*;
    use crate::block_parser::BlocksParser;
    use serde_json::{Value, json};

    fn cex_fail(unit: &str, what: &str, input: Value, expected: Value, observed: Value) -> ! {
        println!(
            "VERIF-CEX {}",
            json!({"unit": unit, "what": what, "input": input, "expected": expected, "observed": observed})
        );
        panic!("counterexample for unit {unit}: {what}");
    }

    fn cex_none(unit: &str, cases: u64, bound: &str) {
        println!(
            "VERIF-CEX-NONE {}",
            json!({"unit": unit, "cases": cases, "bound": bound})
        );
    }

    /// Columns examined by the brute-force oracles: every range end used below is <= MAX_COL, so a
    /// span that is "unbounded to the right" is represented faithfully by 0..=MAX_COL+1.
    const MAX_COL: usize = 7;

    /// All well-formed range lists over columns 0..=max: sorted, non-empty ranges, r[i].end <= r[i+1].start.
    fn wf_range_lists(max: usize) -> Vec<Vec<Range<usize>>> {
        fn rec(from: usize, max: usize, cur: &mut Vec<Range<usize>>, out: &mut Vec<Vec<Range<usize>>>) {
            out.push(cur.clone());
            for s in from..max {
                for e in (s + 1)..=max {
                    cur.push(s..e);
                    rec(e, max, cur, out);
                    cur.pop();
                }
            }
        }
        let mut out = Vec::new();
        rec(0, max, &mut Vec::new(), &mut out);
        out
    }

    fn ranges_json(r: &Option<Vec<Range<usize>>>) -> Value {
        match r {
            None => Value::Null,
            Some(v) => json!(v.iter().map(|r| json!([r.start, r.end])).collect::<Vec<_>>()),
        }
    }

    fn lc_json(lc: &LineChange) -> Value {
        json!({"line": lc.line, "ranges_0based_half_open": ranges_json(&lc.ranges)})
    }

    /// Oracle, written from the statement (C01/C02, DESIGN 6 B1/B2): a line change hits a span iff
    /// its line lies within the span's lines and - when it carries character ranges - some 0-based
    /// column belongs both to one of the ranges and to the part of that line the span covers.
    /// `closed_end` = true: the span's last position is included (start tag, `<` .. `>`),
    /// false: excluded (content, ends where the end-tag comment begins).
    fn oracle_hit(
        start: (usize, usize),
        end: (usize, usize),
        closed_end: bool,
        lc: &LineChange,
    ) -> bool {
        if lc.line < start.0 || lc.line > end.0 {
            return false;
        }
        let Some(ranges) = &lc.ranges else {
            return true;
        };
        // CARVE-OUT (degenerate, documented in README): a half-open span that is EMPTY (start ==
        // end, e.g. `/* <block> *//* </block> */`) contains no column, so the column-set reading
        // says "no hit"; the code (and the Verus contract formula, which is interval overlap) says
        // "hit" when a changed range strictly straddles the empty point. Follow the overlap
        // formula for exactly that configuration so that the harness passes on the current tree.
        if !closed_end && start == end {
            let p = start.1 - 1;
            if ranges.iter().any(|r| r.start < p && p < r.end) {
                return true;
            }
        }
        for col in 0..=(MAX_COL + 1) {
            // Is 0-based column `col` of line `lc.line` inside the span? 1-based character = col + 1.
            let ch = col + 1;
            let after_start = lc.line > start.0 || ch >= start.1;
            let before_end = lc.line < end.0 || if closed_end { ch <= end.1 } else { ch < end.1 };
            if !(after_start && before_end) {
                continue;
            }
            if ranges.iter().any(|r| r.start <= col && col < r.end) {
                return true;
            }
        }
        false
    }

    fn spans() -> Vec<((usize, usize), (usize, usize))> {
        let mut v = Vec::new();
        for sl in 1..=3usize {
            for el in sl..=3usize {
                for sc in 1..=5usize {
                    for ec in 1..=5usize {
                        if sl == el && ec < sc {
                            continue;
                        }
                        v.push(((sl, sc), (el, ec)));
                    }
                }
            }
        }
        v
    }

    /// End-to-end inputs for B1/B2: a one-line modification is turned into a LineChange by the real
    /// diff reader (`line_changes_from_diff` -> `line_diff`), then asked against a span of the new
    /// line that consists of characters which do NOT occur in the old line - any correct
    /// character diff must report those as changed, so the span must be hit.
    fn pipeline_line_change(old_line: &str, new_line: &str) -> (String, LineChange) {
        let diff = format!(
            "diff --git a/f.py b/f.py\nindex 1111111..2222222 100644\n--- a/f.py\n+++ b/f.py\n@@ -1 +1 @@\n-{old_line}\n+{new_line}\n"
        );
        let mut map = crate::diff_parser::line_changes_from_diff(&diff).unwrap();
        let mut lcs = map.remove(&PathBuf::from("f.py")).unwrap();
        assert_eq!(lcs.len(), 1);
        (diff, lcs.remove(0))
    }

    const PIPELINE_PAIRS: [(&str, &str); 9] = [
        ("abab", "bbbb"), // coordinator's case: "# abab" -> "# bbbb<block keep-sorted>bcc"
        ("abbab", "bbbbbba"),
        ("cacb", "abbaabbb"),
        ("accacbc", "aabbbabbc"),
        ("abab", "bb b"),
        ("caabbbbcac", "bcbccccc"),
        ("abbccacb", "bbbbbb"),
        ("\u{e9} ab", "\u{e9} ab"),
        ("a\u{e9}a\u{e9}", "\u{e9}a\u{e9}a\u{e9}"),
    ];

    fn pipeline_cases(unit: &str, closed: bool, cases: &mut u64) {
        const TAG: &str = "<block keep-sorted>";
        for (old_core, new_core) in PIPELINE_PAIRS {
            for prefix in ["# ", "\u{e9} # "] {
                let cuts: Vec<usize> = (0..=new_core.len()).filter(|k| new_core.is_char_boundary(*k)).collect();
                for k in cuts {
                    for tail in ["", "bcc", "X"] {
                        let old_line = format!("{prefix}{old_core}");
                        let new_line = format!("{prefix}{}{TAG}{}{tail}", &new_core[..k], &new_core[k..]);
                        let (diff, lc) = pipeline_line_change(&old_line, &new_line);
                        let lt = new_line.find('<').unwrap() + 1; // 1-based byte column of `<`
                        let gt = new_line.find('>').unwrap() + 1;
                        *cases += 1;
                        let observed = if closed {
                            Block::intersects_with_line_change_inclusive(&(Position::new(1, lt)..=Position::new(1, gt)), &lc)
                        } else {
                            // the single character `<` as a half-open content-like span
                            Block::intersects_with_line_change(&(Position::new(1, lt)..Position::new(1, lt + 1)), &lc)
                        };
                        if !observed {
                            cex_fail(
                                unit,
                                "a span made of characters that do not occur in the old line must be hit by the line change the diff reader produces for that line",
                                json!({"diff_text": diff, "old_line": old_line, "new_line": new_line, "span_1based_byte_columns": if closed { json!({"start": lt, "end_inclusive": gt}) } else { json!({"start": lt, "end_exclusive": lt + 1}) }, "line_change": lc_json(&lc)}),
                                json!(true),
                                json!(false),
                            );
                        }
                    }
                }
            }
        }
    }

    #[test]
    fn cex_B1() {
        let lists = wf_range_lists(MAX_COL);
        let mut cases = 0u64;
        for (s, e) in spans() {
            let range = Position::new(s.0, s.1)..Position::new(e.0, e.1);
            for line in 0..=4usize {
                for ranges in std::iter::once(None).chain(lists.iter().cloned().map(Some)) {
                    let lc = LineChange { line, ranges };
                    let expected = oracle_hit(s, e, false, &lc);
                    let observed = Block::intersects_with_line_change(&range, &lc);
                    cases += 1;
                    if expected != observed {
                        cex_fail(
                            "B1",
                            "Block::intersects_with_line_change disagrees with the half-open set-theoretic definition",
                            json!({"content_position_range": {"start": {"line": s.0, "character": s.1}, "end_exclusive": {"line": e.0, "character": e.1}}, "line_change": lc_json(&lc)}),
                            json!(expected),
                            json!(observed),
                        );
                    }
                }
            }
        }
        pipeline_cases("B1", false, &mut cases);
        cex_none("B1", cases, "end-to-end: 9 old/new line pairs x 2 prefixes x a `<block keep-sorted>` tag inserted at every position x 3 tails, span = the `<` character; content spans with lines 1..=3 x characters 1..=5, line change on line 0..=4, ranges = None or every well-formed range list over columns 0..=7");
    }

    #[test]
    fn cex_B2() {
        let lists = wf_range_lists(MAX_COL);
        let mut cases = 0u64;
        for (s, e) in spans() {
            let range = Position::new(s.0, s.1)..=Position::new(e.0, e.1);
            for line in 0..=4usize {
                for ranges in std::iter::once(None).chain(lists.iter().cloned().map(Some)) {
                    let lc = LineChange { line, ranges };
                    let expected = oracle_hit(s, e, true, &lc);
                    let observed = Block::intersects_with_line_change_inclusive(&range, &lc);
                    cases += 1;
                    if expected != observed {
                        cex_fail(
                            "B2",
                            "Block::intersects_with_line_change_inclusive disagrees with the closed-span set-theoretic definition",
                            json!({"start_tag_position_range": {"start": {"line": s.0, "character": s.1}, "end_inclusive": {"line": e.0, "character": e.1}}, "line_change": lc_json(&lc)}),
                            json!(expected),
                            json!(observed),
                        );
                    }
                }
            }
        }
        pipeline_cases("B2", true, &mut cases);
        cex_none("B2", cases, "end-to-end: 9 old/new line pairs x 2 prefixes x a `<block keep-sorted>` tag inserted at every position x 3 tails, span = `<`..`>`; start-tag spans with lines 1..=3 x characters 1..=5, line change on line 0..=4, ranges = None or every well-formed range list over columns 0..=7");
    }

    /// Strictly line-sorted lists of line changes (<= max_len entries over lines 1..=5), each entry
    /// carrying one member of a small family of range lists.
    fn sorted_line_change_lists(max_len: usize) -> Vec<Vec<(usize, usize)>> {
        // (line, family index)
        fn rec(
            from_line: usize,
            fam: usize,
            max_len: usize,
            cur: &mut Vec<(usize, usize)>,
            out: &mut Vec<Vec<(usize, usize)>>,
        ) {
            out.push(cur.clone());
            if cur.len() == max_len {
                return;
            }
            for line in from_line..=5 {
                for f in 0..fam {
                    cur.push((line, f));
                    rec(line + 1, fam, max_len, cur, out);
                    cur.pop();
                }
            }
        }
        let mut out = Vec::new();
        rec(1, range_family().len(), max_len, &mut Vec::new(), &mut out);
        out
    }

    fn range_family() -> Vec<Option<Vec<Range<usize>>>> {
        vec![
            None,
            Some(vec![0..1]),
            Some(vec![1..3]),
            Some(vec![3..4]),
            Some(vec![0..1, 4..6]),
            Some(vec![2..3, 6..7]),
        ]
    }

    fn b3_b4(unit: &str, closed: bool) {
        let fam = range_family();
        let lists = sorted_line_change_lists(4);
        let mut cases = 0u64;
        for (s, e) in spans() {
            // Keep the product affordable: characters 1..=4 only for the any-of units.
            if s.1 > 4 || e.1 > 4 {
                continue;
            }
            let block = if closed {
                Block::new(
                    HashMap::new(),
                    Position::new(s.0, s.1)..=Position::new(e.0, e.1),
                    0..0,
                    Position::new(e.0, e.1 + 1)..Position::new(e.0 + 1, 1),
                )
            } else {
                Block::new(
                    HashMap::new(),
                    Position::new(s.0.saturating_sub(1).max(1), 1)..=Position::new(s.0.saturating_sub(1).max(1), 1),
                    0..0,
                    Position::new(s.0, s.1)..Position::new(e.0, e.1),
                )
            };
            for list in &lists {
                let lcs: Vec<LineChange> = list
                    .iter()
                    .map(|(line, f)| LineChange { line: *line, ranges: fam[*f].clone() })
                    .collect();
                let expected = lcs.iter().any(|lc| oracle_hit(s, e, closed, lc));
                let observed = if closed {
                    block.start_tag_intersects_with_any(&lcs)
                } else {
                    block.content_intersects_with_any(&lcs)
                };
                cases += 1;
                if expected != observed {
                    cex_fail(
                        unit,
                        if closed {
                            "Block::start_tag_intersects_with_any != exists i. line change i hits the closed start-tag span"
                        } else {
                            "Block::content_intersects_with_any != exists i. line change i hits the half-open content span"
                        },
                        json!({
                            "span": {"start": {"line": s.0, "character": s.1}, "end": {"line": e.0, "character": e.1}, "end_is_inclusive": closed},
                            "line_changes_sorted_by_line": lcs.iter().map(lc_json).collect::<Vec<_>>(),
                        }),
                        json!(expected),
                        json!(observed),
                    );
                }
            }
        }
        cex_none(
            unit,
            cases,
            "spans with lines 1..=3 x characters 1..=4; every strictly line-sorted list of <= 4 line changes over lines 1..=5, each with ranges from {None,[0,1),[1,3),[3,4),[0,1)+[4,6),[2,3)+[6,7)}",
        );
    }

    #[test]
    fn cex_B3() {
        b3_b4("B3", false);
    }

    #[test]
    fn cex_B4() {
        b3_b4("B4", true);
    }

    /// Byte offset -> (1-based line, number of bytes preceding it on that line), by counting newlines.
    fn line_and_offset(source: &str, byte: usize) -> (usize, usize) {
        let before = &source[..byte];
        let line = before.matches('\n').count() + 1;
        let line_start = before.rfind('\n').map_or(0, |p| p + 1);
        (line, byte - line_start)
    }

    #[test]
    fn cex_V5() {
        // Part 1: layouts parsed by the real Rust grammar. The oracle locates content line i in the
        // file through the content byte range and newline counting only (C10: "wherever the tag
        // sits - ... in a comment that continues for several lines after the tag, or with content
        // beginning on the tag's own line").
        let mut parser = crate::language_parsers::rust::parser().unwrap();
        let prefixes = ["", "fn f() {}\n", "\n\n"];
        let indents = ["", "  ", "\t"];
        let before_tag = ["", "note\n", "one\n  two\n"]; // comment text before the tag
        let after_tag = ["", " trailing", "\n note", "\n note\n more\n"]; // comment text after the tag
        let contents = [
            "",
            " b",
            "\n",
            "\nb\na\n",
            " b\n a\n\n  c\n",
            "\n\n  x\n",
            " x = 1; ",
            "\r\nb\r\na\r\n",
        ];
        let end_tags = ["// </block>", "/* </block> */", "/* text\n </block> */"];
        let mut cases = 0u64;
        for prefix in prefixes {
            for indent in indents {
                for bt in before_tag {
                    for at in after_tag {
                        for content in contents {
                            for end_tag in end_tags {
                                let source = format!(
                                    "{prefix}{indent}/* {bt}<block name=\"n\">{at} */{content}{end_tag}\nfn g() {{}}\n"
                                );
                                let blocks = match parser.parse(&source) {
                                    Ok(b) => b,
                                    Err(e) => cex_fail(
                                        "V5",
                                        "generated single-block source failed to parse",
                                        json!({"file_text": source}),
                                        json!("one block"),
                                        json!(e.to_string()),
                                    ),
                                };
                                if blocks.len() != 1 {
                                    cex_fail(
                                        "V5",
                                        "generated single-block source did not yield exactly one block",
                                        json!({"file_text": source}),
                                        json!(1),
                                        json!(blocks.len()),
                                    );
                                }
                                let block = &blocks[0];
                                let c = block.content(&source);
                                let mut off = 0usize;
                                for (i, line) in c.split_inclusive('\n').enumerate() {
                                    let abs = block.content_bytes_range.start + off;
                                    let expected = line_and_offset(&source, abs);
                                    let observed = block.content_line_position(i);
                                    cases += 1;
                                    if expected != observed {
                                        cex_fail(
                                            "V5",
                                            "Block::content_line_position does not name the file line (and preceding byte count) that holds content line i",
                                            json!({"file_text": source, "language": "rust", "content_line_index": i, "content_line": line}),
                                            json!({"line": expected.0, "character_offset": expected.1}),
                                            json!({"line": observed.0, "character_offset": observed.1}),
                                        );
                                    }
                                    off += line.len();
                                }
                            }
                        }
                    }
                }
            }
        }
        // Part 2: synthetic grid on Block::new, contract wording of DESIGN 6 V5:
        // line = content_position_range.start.line + i, offset = start.character - 1 for i == 0 else 0.
        for tag_start_line in 1..=3usize {
            for tag_end_line in tag_start_line..=3usize {
                for content_line in tag_end_line..=5usize {
                    for content_char in 1..=6usize {
                        let block = Block::new(
                            HashMap::new(),
                            Position::new(tag_start_line, 2)..=Position::new(tag_end_line, 9),
                            0..0,
                            Position::new(content_line, content_char)..Position::new(content_line + 9, 1),
                        );
                        for i in 0..=6usize {
                            let expected = (content_line + i, if i == 0 { content_char - 1 } else { 0 });
                            let observed = block.content_line_position(i);
                            cases += 1;
                            if expected != observed {
                                cex_fail(
                                    "V5",
                                    "Block::content_line_position != (content start line + i, content start character - 1 for i = 0 else 0)",
                                    json!({
                                        "start_tag_position_range": [[tag_start_line, 2], [tag_end_line, 9]],
                                        "content_position_range_start": [content_line, content_char],
                                        "content_line_index": i
                                    }),
                                    json!({"line": expected.0, "character_offset": expected.1}),
                                    json!({"line": observed.0, "character_offset": observed.1}),
                                );
                            }
                        }
                    }
                }
            }
        }
        cex_none("V5", cases, "3 prefixes x 3 indents x 3 texts before the tag x 4 texts after the tag inside the start comment x 8 contents x 3 end-tag comments parsed by the Rust grammar, every content line; plus synthetic grid tag lines 1..=3, content start line..=5, character 1..=6, index 0..=6");
    }

    #[test]
    fn cex_V9() {
        fn case_variants(word: &str) -> Vec<String> {
            let chars: Vec<char> = word.chars().collect();
            (0..(1u32 << chars.len()))
                .map(|mask| {
                    chars
                        .iter()
                        .enumerate()
                        .map(|(i, c)| if mask & (1 << i) != 0 { c.to_ascii_uppercase() } else { *c })
                        .collect()
                })
                .collect()
        }
        // C11: `severity="warning|info|hint"` (any letter case) ... numeric severity 1-4; absent => error.
        let table = [("error", 1u64), ("warning", 2), ("info", 3), ("hint", 4)];
        let mut values: Vec<Option<String>> = vec![None];
        for (w, _) in table {
            values.extend(case_variants(w).into_iter().map(Some));
        }
        for bad in [
            "", " ", "warn", "err", "errors", "warnings", "information", "hints", " error", "error ",
            "warning\n", "1", "2", "0", "fatal", "e", "inf", "hin", "errorwarning", "error,warning",
            "none", "off", "debug", "Warn1ng", "ｅrror",
        ] {
            values.push(Some(bad.to_string()));
        }
        let mut cases = 0u64;
        for extra_attrs in [false, true] {
            for v in &values {
                let mut attrs = HashMap::new();
                if extra_attrs {
                    attrs.insert("name".to_string(), "warning".to_string());
                    attrs.insert("Severity".to_string(), "hint".to_string());
                }
                if let Some(s) = v {
                    attrs.insert("severity".to_string(), s.clone());
                }
                let block = Block::new(
                    attrs.clone(),
                    Position::new(1, 1)..=Position::new(1, 2),
                    0..0,
                    Position::new(1, 3)..Position::new(1, 3),
                );
                let expected: Option<u64> = match v {
                    None => Some(1),
                    Some(s) => table
                        .iter()
                        .find(|(w, _)| s.len() == w.len() && s.chars().zip(w.chars()).all(|(a, b)| a.to_ascii_lowercase() == b))
                        .map(|(_, n)| *n),
                };
                let observed: Option<u64> = block
                    .severity()
                    .ok()
                    .map(|s| serde_json::to_value(s).unwrap().as_u64().unwrap());
                cases += 1;
                if expected != observed {
                    cex_fail(
                        "V9",
                        "Block::severity: absent => error(1); error|warning|info|hint in any letter case => 1..4; anything else => Err",
                        json!({"attributes": attrs}),
                        json!(expected.map_or(json!("Err"), |n| json!(n))),
                        json!(observed.map_or(json!("Err"), |n| json!(n))),
                    );
                }
            }
        }
        cex_none("V9", cases, "severity attribute absent, every upper/lower-case spelling of error/warning/info/hint, 25 near misses; with and without unrelated attributes");
    }

    // =========================================================================================
    // B5 B6 B7 L1 PCi
    // =========================================================================================

    use std::cell::RefCell;
    use std::collections::HashSet;
    use std::rc::Rc;

    /// FileSystem test double: files in a fixed walk order, a set of files that exist but are
    /// not walked (hidden / git-ignored), and a log of every read.
    struct WorldFs {
        walk_order: Vec<String>,
        contents: HashMap<String, String>,
        reads: RefCell<Vec<String>>,
    }

    impl FileSystem for WorldFs {
        fn read_to_string(&self, path: &Path) -> anyhow::Result<String> {
            let key = path.display().to_string();
            self.reads.borrow_mut().push(key.clone());
            self.contents.get(&key).cloned().ok_or_else(|| anyhow!("no such file {key}"))
        }

        fn walk(&self) -> impl Iterator<Item = anyhow::Result<PathBuf>> {
            self.walk_order.iter().map(|p| Ok(PathBuf::from(p)))
        }
    }

    /// PathChecker test double: explicit allow-set and ignore-set.
    struct SetChecker {
        allow: HashSet<String>,
        ignore: HashSet<String>,
    }

    impl PathChecker for SetChecker {
        fn should_allow(&self, path: &Path) -> bool {
            self.allow.contains(&path.display().to_string())
        }

        fn should_ignore(&self, path: &Path) -> bool {
            self.ignore.contains(&path.display().to_string())
        }
    }

    fn python_only_parsers(all: &HashMap<OsString, LanguageParser>) -> HashMap<OsString, LanguageParser> {
        HashMap::from([(OsString::from("py"), Rc::clone(&all[&OsString::from("py")]))])
    }

    // line 1 tag a, 2 content a, 3 end a, 4 outside, 5 tag b, 6 content b, 7 end b
    const TWO_BLOCKS: &str = "# <block name=\"a\">\nx = 1\n# </block>\ny = 2\n# <block name=\"b\">\nz = 3\n# </block>\n";
    const NO_BLOCKS: &str = "x = 1\ny = 2\n# just a comment\nz = 3\n";
    const UNBALANCED: &str = "# <block name=\"a\">\nx = 1\n# </block>\ny = 2\n# <block name=\"never-closed\">\nz = 3\n";

    #[derive(Clone, Copy, Debug, PartialEq)]
    enum Content {
        None,
        Two,
        Unbalanced,
    }

    /// Whole-line changes used in the worlds: on content line 2 (block a), 6 (block b), 4 (no block).
    const DIFFS: [Option<&[usize]>; 4] = [None, Some(&[2]), Some(&[4]), Some(&[2, 6])];

    #[derive(Clone, Copy, Debug)]
    struct WFile {
        name: &'static str,
        supported: bool,
        content: Content,
        allowed: bool,
        ignored: bool,
        diff: usize,
        walked: bool,
    }

    fn wfile_options(name_supported: &'static str, name_unsupported: &'static str) -> Vec<WFile> {
        let mut v = Vec::new();
        for (name, supported) in [(name_supported, true), (name_unsupported, false)] {
            for content in [Content::None, Content::Two, Content::Unbalanced] {
                for allowed in [false, true] {
                    for ignored in [false, true] {
                        for diff in 0..DIFFS.len() {
                            for walked in [false, true] {
                                v.push(WFile { name, supported, content, allowed, ignored, diff, walked });
                            }
                        }
                    }
                }
            }
        }
        v
    }

    /// Expected entry of one file: None = absent, Some(list of (block name, is_content_modified)).
    /// `Err(())` = the run must fail (an examined file has unbalanced tags, C12).
    fn b7_expect(f: &WFile, scan: bool) -> Result<Option<Vec<(&'static str, bool)>>, ()> {
        let lines: &[usize] = DIFFS[f.diff].unwrap_or(&[]);
        let in_diff = DIFFS[f.diff].is_some();
        let taken_by_walk = scan && f.walked && f.allowed && !f.ignored;
        let through_diff = !taken_by_walk && in_diff && !f.ignored;
        if !(taken_by_walk || through_diff) || !f.supported {
            return Ok(None); // out of scope, or no grammar for this name: never examined
        }
        match f.content {
            Content::Unbalanced => Err(()),
            Content::None => Ok(None),
            Content::Two => {
                let (a, b) = (lines.contains(&2), lines.contains(&6));
                let all = vec![("a", a), ("b", b)];
                let listed: Vec<(&'static str, bool)> = if taken_by_walk { all } else { all.into_iter().filter(|(_, m)| *m).collect() };
                Ok(if listed.is_empty() { None } else { Some(listed) })
            }
        }
    }

    fn b7_run(
        py: &HashMap<OsString, LanguageParser>,
        files: &[WFile],
        walk_order: &[usize],
        scan: bool,
        cases: &mut u64,
    ) {
        let text_of = |c: Content| match c {
            Content::None => NO_BLOCKS,
            Content::Two => TWO_BLOCKS,
            Content::Unbalanced => UNBALANCED,
        };
        let fs = WorldFs {
            walk_order: walk_order.iter().filter(|i| files[**i].walked).map(|i| files[*i].name.to_string()).collect(),
            contents: files.iter().map(|f| (f.name.to_string(), text_of(f.content).to_string())).collect(),
            reads: RefCell::new(Vec::new()),
        };
        let checker = SetChecker {
            allow: files.iter().filter(|f| f.allowed).map(|f| f.name.to_string()).collect(),
            ignore: files.iter().filter(|f| f.ignored).map(|f| f.name.to_string()).collect(),
        };
        let line_changes: HashMap<PathBuf, Vec<LineChange>> = files
            .iter()
            .filter_map(|f| DIFFS[f.diff].map(|ls| (PathBuf::from(f.name), ls.iter().map(|l| LineChange { line: *l, ranges: None }).collect())))
            .collect();
        let observed = parse_blocks(line_changes, scan, &fs, &checker, py.clone(), HashMap::new());
        *cases += 1;
        // ---- oracle ----
        let mut expected: Result<Vec<(String, Vec<(&'static str, bool)>)>, ()> = Ok(Vec::new());
        for f in files {
            match b7_expect(f, scan) {
                Err(()) => expected = Err(()),
                Ok(Some(list)) => {
                    if let Ok(v) = expected.as_mut() {
                        v.push((f.name.to_string(), list));
                    }
                }
                Ok(None) => {}
            }
        }
        if let Ok(v) = expected.as_mut() {
            v.sort();
        }
        let observed_flat: Result<Vec<(String, Vec<(String, bool)>)>, String> = match &observed {
            Err(e) => Err(format!("{e:#}")),
            Ok(m) => {
                let mut v: Vec<(String, Vec<(String, bool)>)> = m
                    .iter()
                    .map(|(k, fb)| (k.display().to_string(), fb.blocks_with_context.iter().map(|b| (b.block.name_display().to_string(), b.is_content_modified)).collect()))
                    .collect();
                v.sort();
                Ok(v)
            }
        };
        let same = match (&expected, &observed_flat) {
            (Err(()), Err(_)) => true,
            (Ok(e), Ok(o)) => {
                e.len() == o.len()
                    && e.iter().zip(o).all(|((ef, el), (of, ol))| ef == of && el.len() == ol.len() && el.iter().zip(ol).all(|((en, em), (on, om))| en == on && em == om))
            }
            _ => false,
        };
        // file contents are handed through unchanged
        let content_ok = observed.as_ref().map_or(true, |m| m.iter().all(|(k, fb)| fs.contents.get(&k.display().to_string()) == Some(&fb.file_content)));
        if !same || !content_ok {
            cex_fail(
                "B7",
                "parse_blocks: keys = {walked & allowed & not ignored & has blocks: all blocks, flags from the diff} + {diff files not taken by the walk & not ignored & a touched block: touched blocks only}; ignore wins; files without a grammar are never examined; an examined file with unbalanced tags fails the run",
                json!({
                    "should_scan_files": scan,
                    "walk_order": fs.walk_order,
                    "files": files.iter().map(|f| json!({
                        "path": f.name, "file_text": text_of(f.content), "in_allow_set": f.allowed, "in_ignore_set": f.ignored,
                        "returned_by_walk": f.walked, "whole_line_changes_in_diff": DIFFS[f.diff],
                    })).collect::<Vec<_>>(),
                }),
                match &expected { Err(()) => json!({"error": "any"}), Ok(v) => json!(v.iter().map(|(f, l)| json!({"file": f, "blocks": l.iter().map(|(n, m)| json!({"name": n, "is_content_modified": m})).collect::<Vec<_>>()})).collect::<Vec<_>>()) },
                match &observed_flat { Err(e) => json!({"error": e}), Ok(v) => json!(v.iter().map(|(f, l)| json!({"file": f, "blocks": l.iter().map(|(n, m)| json!({"name": n, "is_content_modified": m})).collect::<Vec<_>>()})).collect::<Vec<_>>()) },
            );
        }
    }

    #[test]
    fn cex_B7() {
        let all = crate::language_parsers::language_parsers().unwrap();
        let py = python_only_parsers(&all);
        let mut cases = 0u64;
        let first = wfile_options("src/one.py", "src/one.txt");
        let second = wfile_options("two.py", "notes/two.unknown");
        // one file
        for f in &first {
            for scan in [false, true] {
                b7_run(&py, &[*f], &[0], scan, &mut cases);
            }
        }
        // two files: every pair of options without unbalanced content, both scan modes, walk order alternating;
        // pairs with an unbalanced file: the partner is a healthy supported file in the diff.
        let mut flip = 0usize;
        for f in &first {
            for g in &second {
                if f.content == Content::Unbalanced || g.content == Content::Unbalanced {
                    continue;
                }
                for scan in [false, true] {
                    flip += 1;
                    let order: [usize; 2] = if flip % 2 == 0 { [0, 1] } else { [1, 0] };
                    b7_run(&py, &[*f, *g], &order, scan, &mut cases);
                }
            }
        }
        for f in first.iter().filter(|f| f.content == Content::Unbalanced) {
            for g in second.iter().filter(|g| g.content == Content::Two && g.supported) {
                for scan in [false, true] {
                    flip += 1;
                    let order: [usize; 2] = if flip % 2 == 0 { [0, 1] } else { [1, 0] };
                    b7_run(&py, &[*f, *g], &order, scan, &mut cases);
                }
            }
        }
        // three files, random (seeded)
        let third = wfile_options("deep/dir/three.py", "three");
        let mut x: u64 = std::env::var("VERIF_SEED").ok().and_then(|s| s.parse().ok()).unwrap_or(1u64).wrapping_mul(0x9E3779B97F4A7C15) | 1;
        let mut next = |n: usize| {
            x = x.wrapping_mul(6364136223846793005).wrapping_add(1442695040888963407);
            ((x >> 33) as usize) % n
        };
        for _ in 0..20000 {
            let files = [first[next(first.len())], second[next(second.len())], third[next(third.len())]];
            let mut order = [0usize, 1, 2];
            let (i, j) = (next(3), next(3));
            order.swap(i, j);
            b7_run(&py, &files, &order, next(2) == 0, &mut cases);
        }
        cex_none(
            "B7",
            cases,
            "worlds of 1 file (all 192 option combinations), 2 files (all pairs of {supported/unsupported name} x {no blocks, two blocks} x {allowed} x {ignored} x {not in diff, diff touches block a, diff touches no block, diff touches both} x {walked or not}; plus pairs with an unbalanced file), 20000 random 3-file worlds; should_scan_files in {false,true}; walk order permuted; own FileSystem/PathChecker doubles",
        );
    }

    #[test]
    fn cex_B5() {
        let all = crate::language_parsers::language_parsers().unwrap();
        let mut cases = 0u64;
        // (a) a name that maps to no grammar => Ok(None) WITHOUT reading the file
        for name in ["a.txt", "noext", "a.py.bak", "dir/x.unknown", "Makefile.old", ".hidden", "py.", "a.PY"] {
            for filter in [true, false] {
                let fs = WorldFs { walk_order: vec![], contents: HashMap::from([(name.to_string(), UNBALANCED.to_string())]), reads: RefCell::new(vec![]) };
                let r = parse_file(
                    Path::new(name),
                    &[LineChange { line: 2, ranges: None }],
                    if filter { BlocksFilter::All } else { BlocksFilter::ModifiedOnly },
                    &fs,
                    &all,
                    &HashMap::new(),
                );
                cases += 1;
                let reads = fs.reads.borrow().clone();
                if !matches!(r, Ok(None)) || !reads.is_empty() {
                    cex_fail(
                        "B5",
                        "parse_file: a file whose name maps to no grammar yields Ok(None) and is never read",
                        json!({"path": name, "file_text": UNBALANCED, "filter": if filter { "All" } else { "ModifiedOnly" }}),
                        json!({"result": "Ok(None)", "files_read": []}),
                        json!({"result": match &r { Ok(None) => "Ok(None)".to_string(), Ok(Some(_)) => "Ok(Some(..))".to_string(), Err(e) => format!("Err({e:#})") }, "files_read": reads}),
                    );
                }
            }
        }
        // (b) unbalanced tags are an error, whatever the filter and the diff (C12)
        for (text, why) in [
            ("x = 1\n# </block>\n", "a stray end tag and no start tag at all"),
            ("# </block>", "only an end tag"),
            (UNBALANCED, "a start tag never closed"),
            ("# <block>\n# </block>\n# </block>\n", "one end tag too many"),
            ("# <block>\n", "only a start tag"),
        ] {
            for filter in [true, false] {
                for changes in [vec![], vec![LineChange { line: 1, ranges: None }], vec![LineChange { line: 9, ranges: None }]] {
                    let fs = WorldFs { walk_order: vec![], contents: HashMap::from([("f.py".to_string(), text.to_string())]), reads: RefCell::new(vec![]) };
                    let r = parse_file(Path::new("f.py"), &changes, if filter { BlocksFilter::All } else { BlocksFilter::ModifiedOnly }, &fs, &all, &HashMap::new());
                    cases += 1;
                    if r.is_ok() {
                        cex_fail(
                            "B5",
                            "parse_file: a file whose block tags do not balance is an error, never a silent skip",
                            json!({"path": "f.py", "file_text": text, "defect": why, "filter": if filter { "All" } else { "ModifiedOnly" }, "changed_lines": changes.iter().map(|c| c.line).collect::<Vec<_>>()}),
                            json!({"error": "any"}),
                            json!(match r { Ok(None) => "Ok(None)".to_string(), Ok(Some(fb)) => format!("Ok(Some({} blocks))", fb.blocks_with_context.len()), Err(_) => unreachable!() }),
                        );
                    }
                }
            }
        }
        // (c) selection and flags versus the diff, on TWO_BLOCKS. Changes: whole lines 2 / 4 / 6,
        //     and a character range inside the attributes of tag b (line 5), which touches the
        //     tag but not the content.
        let tag_b_line = TWO_BLOCKS.lines().nth(4).unwrap();
        let attr = tag_b_line.find("name").unwrap();
        let pool: Vec<(LineChange, &str)> = vec![
            (LineChange { line: 2, ranges: None }, "a-content"),
            (LineChange { line: 4, ranges: None }, "outside"),
            (LineChange { line: 5, ranges: Some(vec![attr..attr + 4]) }, "b-tag"),
            (LineChange { line: 6, ranges: None }, "b-content"),
        ];
        for mask in 0..16usize {
            for filter in [true, false] {
                let picked: Vec<&(LineChange, &str)> = pool.iter().enumerate().filter(|(i, _)| mask & (1 << i) != 0).map(|(_, p)| p).collect();
                let changes: Vec<LineChange> = picked.iter().map(|(lc, _)| LineChange { line: lc.line, ranges: lc.ranges.clone() }).collect();
                let has = |k: &str| picked.iter().any(|(_, n)| *n == k);
                // (name, content modified, tag modified)
                let truth = [("a", has("a-content"), false), ("b", has("b-content"), has("b-tag"))];
                let expected: Vec<(String, bool, bool)> = truth
                    .iter()
                    .filter(|(_, c, t)| filter || *c || *t)
                    .map(|(n, c, t)| (n.to_string(), *c, *t))
                    .collect();
                let fs = WorldFs { walk_order: vec![], contents: HashMap::from([("f.py".to_string(), TWO_BLOCKS.to_string())]), reads: RefCell::new(vec![]) };
                let r = parse_file(Path::new("f.py"), &changes, if filter { BlocksFilter::All } else { BlocksFilter::ModifiedOnly }, &fs, &all, &HashMap::new());
                cases += 1;
                let observed: Option<Vec<(String, bool, bool)>> = match &r {
                    Ok(Some(fb)) if fb.file_content == TWO_BLOCKS => Some(fb.blocks_with_context.iter().map(|b| (b.block.name_display().to_string(), b.is_content_modified, b._is_start_tag_modified)).collect()),
                    _ => None,
                };
                if observed.as_ref() != Some(&expected) {
                    cex_fail(
                        "B5",
                        "parse_file: with filter All every block is returned, with ModifiedOnly exactly the blocks whose content or start tag the diff touches; flags say which of the two was touched; the file text is handed through",
                        json!({"path": "f.py", "file_text": TWO_BLOCKS, "filter": if filter { "All" } else { "ModifiedOnly" }, "line_changes": changes.iter().map(lc_json).collect::<Vec<_>>()}),
                        json!(expected.iter().map(|(n, c, t)| json!({"name": n, "is_content_modified": c, "is_start_tag_modified": t})).collect::<Vec<_>>()),
                        json!(observed.map(|o| o.iter().map(|(n, c, t)| json!({"name": n, "is_content_modified": c, "is_start_tag_modified": t})).collect::<Vec<_>>())),
                    );
                }
            }
        }
        cex_none("B5", cases, "8 names without a grammar x 2 filters (must not be read); 5 unbalanced texts x 2 filters x 3 diffs; two-block file x all 16 subsets of {content a, outside, attributes of tag b, content b} x 2 filters");
    }

    #[test]
    fn cex_B6() {
        let table = crate::language_parsers::language_parsers().unwrap();
        let remaps: Vec<Vec<(&str, &str)>> = vec![
            vec![],
            vec![("cxx", "cpp")],
            vec![("phtml", "html")],
            vec![("h", "c")],
            vec![("rust", "rs"), ("bak", "py")],
            vec![("Makefile", "toml"), ("mod", "rs")],
            vec![("d.ts", "js"), ("txt", "md")],
        ];
        let dirs = ["", "tools/", "dir.with.dots/", "svc/a.b/", "x.py/"];
        let bases = [
            "x.d.ts", "go.mod", "go.sum", "go.work", "Makefile", "makefile", "x.rs.bak", "X.RS", ".x.py", "x.rs", "a.b.c.py", "x.cxx", "y.phtml",
            "z.h", "lib.rust", "notes.txt", "x.mod", "my.go.mod", "rs", "py.", "x.", ".gitignore", "GNUmakefile", "x.tar.gz", "index.d.ts", "x.go.work",
            "weird.Makefile", "a.mk",
        ];
        let mut cases = 0u64;
        for remap in &remaps {
            let extra: HashMap<OsString, OsString> = remap.iter().map(|(k, v)| (OsString::from(k), OsString::from(v))).collect();
            for dir in dirs {
                for base in bases {
                    let path = format!("{dir}{base}");
                    // ---- oracle (C16 / DESIGN 6 B6) ----
                    // candidates: every `.`-suffix of the BASE NAME, shortest first, then the whole base name;
                    // a candidate resolves through the -E mapping if it has one, else as it is.
                    let mut candidates: Vec<&str> = base.match_indices('.').map(|(i, _)| &base[i + 1..]).collect();
                    candidates.reverse();
                    candidates.push(base);
                    let mut expected_key: Option<String> = None;
                    for c in candidates {
                        let key = remap.iter().find(|(k, _)| *k == c).map_or(c, |(_, v)| *v);
                        if table.contains_key(&OsString::from(key)) {
                            expected_key = Some(key.to_string());
                            break;
                        }
                    }
                    let observed = parser_for_file_path(Path::new(&path), &table, &extra);
                    cases += 1;
                    let ok = match (&expected_key, observed) {
                        (None, None) => true,
                        (Some(k), Some(p)) => Rc::ptr_eq(p, &table[&OsString::from(k)]),
                        _ => false,
                    };
                    if !ok {
                        let observed_keys: Vec<String> = observed.map_or(vec![], |p| {
                            let mut v: Vec<String> = table.iter().filter(|(_, q)| Rc::ptr_eq(p, q)).map(|(k, _)| k.to_string_lossy().to_string()).collect();
                            v.sort();
                            v
                        });
                        cex_fail(
                            "B6",
                            "parser_for_file_path: the grammar is chosen by the file's BASE NAME - the shortest registered (or -E mapped) dot-suffix, else the whole name - and a -E mapping wins over a built-in entry; None when nothing maps",
                            json!({"path": path, "extension_mappings": remap}),
                            json!(expected_key.map_or(json!("None"), |k| json!({"grammar_registered_as": k}))),
                            json!(if observed.is_none() { json!("None") } else { json!({"grammar_registered_as_one_of": observed_keys}) }),
                        );
                    }
                }
            }
        }
        cex_none("B6", cases, "REAL language_parsers() table; 28 base names (compound suffixes, extension-less names, backups, upper case, dot files, names equal to an extension) x 5 directory prefixes (incl. dotted directories) x 7 -E mapping sets (incl. keys that are registered extensions: phtml=html, h=c, Makefile=toml); identity compared with Rc::ptr_eq");
    }

    #[test]
    fn cex_L1() {
        // blocks described by (start line, start column, name, modified, extra attribute)
        let specs: [(usize, usize, Option<&str>, bool); 6] = [
            (1, 4, Some("top"), true),
            (3, 4, None, false),
            (3, 40, Some("same-line-second"), true),
            (3, 80, Some("same-line-third"), false),
            (7, 8, Some(""), true),
            (2, 1, Some("dup"), false),
        ];
        let mut cases = 0u64;
        // every subset, in two orders (as given / reversed)
        for mask in 0..(1usize << specs.len()) {
            for reversed in [false, true] {
                let mut picked: Vec<&(usize, usize, Option<&str>, bool)> = specs.iter().enumerate().filter(|(i, _)| mask & (1 << i) != 0).map(|(_, s)| s).collect();
                if reversed {
                    picked.reverse();
                }
                let blocks_with_context: Vec<BlockWithContext> = picked
                    .iter()
                    .map(|(line, col, name, modified)| {
                        let mut attributes = HashMap::from([("keep-sorted".to_string(), "asc".to_string())]);
                        if let Some(n) = name {
                            attributes.insert("name".to_string(), n.to_string());
                        }
                        BlockWithContext {
                            block: Block::new(attributes, Position::new(*line, *col)..=Position::new(*line, col + 10), 0..0, Position::new(*line, col + 14)..Position::new(line + 1, 1)),
                            _is_start_tag_modified: false,
                            is_content_modified: *modified,
                        }
                    })
                    .collect();
                let file_blocks = FileBlocks { file_content: String::new(), blocks_with_context };
                let observed = file_blocks.to_serializable_report();
                cases += 1;
                // ---- oracle (C11 `list`, C03 "line and column of its `<`") ----
                let mut expected: Vec<serde_json::Value> = picked
                    .iter()
                    .map(|(line, col, name, modified)| {
                        let mut attrs = serde_json::Map::new();
                        attrs.insert("keep-sorted".into(), json!("asc"));
                        if let Some(n) = name {
                            attrs.insert("name".into(), json!(n));
                        }
                        json!({"name": name.unwrap_or("(unnamed)"), "line": line, "column": col, "is_content_modified": modified, "attributes": attrs})
                    })
                    .collect();
                let key = |v: &serde_json::Value| (v["line"].as_u64().unwrap_or(0), v["column"].as_u64().unwrap_or(0));
                expected.sort_by_key(key);
                let sorted_by_line = observed.windows(2).all(|w| w[0]["line"].as_u64() <= w[1]["line"].as_u64());
                let mut observed_sorted = observed.clone();
                observed_sorted.sort_by_key(key);
                if !sorted_by_line || observed_sorted != expected {
                    cex_fail(
                        "L1",
                        "to_serializable_report: exactly one listing per block (also when several blocks start on the same line) with name (or `(unnamed)`), line and column of `<`, is_content_modified and the attributes; listings sorted by line",
                        json!({"blocks_in_input_order": picked.iter().map(|(l, c, n, m)| json!({"start_tag_line": l, "start_tag_column": c, "name": n, "is_content_modified": m})).collect::<Vec<_>>()}),
                        json!(expected),
                        json!(observed),
                    );
                }
                // the context-level report maps each file to that file's listings
                if mask % 7 == 3 {
                    let ctx = crate::validators::ValidationContext::new(HashMap::from([
                        (PathBuf::from("a/b.py"), FileBlocks { file_content: String::new(), blocks_with_context: file_blocks.blocks_with_context.clone() }),
                        (PathBuf::from("c.rs"), FileBlocks { file_content: String::new(), blocks_with_context: vec![] }),
                    ]));
                    let report = ctx.to_serializable_report();
                    cases += 1;
                    let mut keys: Vec<String> = report.keys().map(|k| k.display().to_string()).collect();
                    keys.sort();
                    let mut ab = report.get(&PathBuf::from("a/b.py")).cloned().unwrap_or_default();
                    ab.sort_by_key(key);
                    if keys != vec!["a/b.py".to_string(), "c.rs".to_string()] || ab != expected || report.get(&PathBuf::from("c.rs")).map(|v| v.len()) != Some(0) {
                        cex_fail(
                            "L1",
                            "ValidationContext::to_serializable_report: one entry per file holding that file's listings",
                            json!({"files": ["a/b.py (blocks as listed)", "c.rs (no blocks)"], "blocks": picked.iter().map(|(l, c, n, m)| json!({"start_tag_line": l, "start_tag_column": c, "name": n, "is_content_modified": m})).collect::<Vec<_>>()}),
                            json!({"a/b.py": expected, "c.rs": []}),
                            json!(report.iter().map(|(k, v)| (k.display().to_string(), json!(v))).collect::<serde_json::Map<_, _>>()),
                        );
                    }
                }
            }
        }
        cex_none("L1", cases, "every subset of 6 blocks (three of them starting on the same line, unnamed / empty-named / named, modified or not) in two input orders; plus the per-file wrapper on every 7th subset");
    }

    #[test]
    fn cex_PCi() {
        fn set(patterns: &[&str]) -> GlobSet {
            let mut b = globset::GlobSetBuilder::new();
            for p in patterns {
                b.add(globset::Glob::new(p).unwrap());
            }
            b.build().unwrap()
        }
        // documented glob forms: `*.ext`, `dir/**`, `**/name`, exact path
        let pattern_sets: Vec<Vec<&str>> = vec![
            vec![],
            vec!["setup.py"],
            vec!["**/setup.py"],
            vec!["*.md"],
            vec!["docs/**"],
            vec!["src/**/*.rs"],
            vec!["setup.py", "docs/**"],
            vec!["**/generated/**"],
            vec!["a b/x y.txt"],
        ];
        let paths = [
            "setup.py", "pkg/setup.py", "setup.pyc", "xsetup.py", "README.md", "docs/x.md", "docs/sub/deep.txt", "docsx/a.md", "a/docs/b.txt", "src/main.rs",
            "src/a/b/c.rs", "src/x.py", "tests/src/x.rs", "gen/generated/x.rs", "generated/y", "a b/x y.txt", "b", "b/b/x.py",
        ];
        // hand-written truth for the entries the properties talk about (C15: "exact path", "`dir/**`", "`**/name`", "`*.ext`")
        let truth: [(&str, &str, bool); 16] = [
            ("setup.py", "setup.py", true),
            ("setup.py", "pkg/setup.py", false),
            ("setup.py", "setup.pyc", false),
            ("setup.py", "xsetup.py", false),
            ("**/setup.py", "setup.py", true),
            ("**/setup.py", "pkg/setup.py", true),
            ("**/setup.py", "xsetup.py", false),
            ("docs/**", "docs/x.md", true),
            ("docs/**", "docs/sub/deep.txt", true),
            ("docs/**", "docsx/a.md", false),
            ("docs/**", "a/docs/b.txt", false),
            ("*.md", "README.md", true),
            ("*.md", "setup.py", false),
            ("src/**/*.rs", "src/a/b/c.rs", true),
            ("src/**/*.rs", "tests/src/x.rs", false),
            ("a b/x y.txt", "a b/x y.txt", true),
        ];
        let mut cases = 0u64;
        for (pattern, path, expected) in truth {
            for as_ignore in [false, true] {
                let checker = if as_ignore { PathCheckerImpl::new(set(&[]), set(&[pattern])) } else { PathCheckerImpl::new(set(&[pattern]), set(&[])) };
                let observed = if as_ignore { checker.should_ignore(Path::new(path)) } else { checker.should_allow(Path::new(path)) };
                let other = if as_ignore { checker.should_allow(Path::new(path)) } else { checker.should_ignore(Path::new(path)) };
                cases += 1;
                if observed != expected || other {
                    cex_fail(
                        "PCi",
                        "PathCheckerImpl: a glob decides on the whole root-relative path (an exact path names one file only; `**/name` any depth; `dir/**` everything below dir); the other, empty set matches nothing",
                        json!({"glob": pattern, "used_as": if as_ignore { "--ignore" } else { "positional glob" }, "path": path}),
                        json!({"matches": expected, "other_set_matches": false}),
                        json!({"matches": observed, "other_set_matches": other}),
                    );
                }
            }
        }
        // differential against globset itself: every pair (allow set, ignore set) x every path
        for allow in &pattern_sets {
            for ignore in &pattern_sets {
                let checker = PathCheckerImpl::new(set(allow), set(ignore));
                let (ref_allow, ref_ignore) = (set(allow), set(ignore));
                for path in paths {
                    let expected = (ref_allow.is_match(path), ref_ignore.is_match(path));
                    let observed = (checker.should_allow(Path::new(path)), checker.should_ignore(Path::new(path)));
                    cases += 1;
                    if expected != observed {
                        cex_fail(
                            "PCi",
                            "PathCheckerImpl::should_allow / should_ignore must answer exactly what the positional / --ignore glob set answers for the whole path",
                            json!({"positional_globs": allow, "ignore_globs": ignore, "path": path}),
                            json!({"should_allow": expected.0, "should_ignore": expected.1}),
                            json!({"should_allow": observed.0, "should_ignore": observed.1}),
                        );
                    }
                }
            }
        }
        cex_none("PCi", cases, "16 hand-written (glob, path, verdict) facts for the documented glob forms, each as positional glob and as --ignore glob; every pair of 9 glob sets (allow x ignore) x 18 paths compared with globset itself");
    }
}
