
// ---------------------------------------------------------------------------------------------
// verif_cex: small-scope exhaustive differential harnesses for src/blocks.rs
// units: B1 B2 B3 B4 V5 V9          (see /verif/cex/README.md, /verif/cex/MAP.json)
// This text is appended verbatim to a scratch copy of src/blocks.rs.
// ---------------------------------------------------------------------------------------------
#[cfg(test)]
#[allow(unused_imports, dead_code, clippy::all)]
mod verif_cex {
    use super::*;
    use crate::block_parser::BlocksParser;
    use serde_json::{Value, json};

    fn cex_fail(unit: &str, what: &str, input: Value, expected: Value, observed: Value) -> ! {
        println!(
            "VERIF-CEX {}",
            json!({"unit": unit, "what": what, "input": input, "expected": expected, "observed": observed})
        );
        panic!("counterexample for unit {unit}: {what}");
    }

    fn cex_none(unit: &str, cases: u64, bound: &str) {
        println!(
            "VERIF-CEX-NONE {}",
            json!({"unit": unit, "cases": cases, "bound": bound})
        );
    }

    /// Columns examined by the brute-force oracles: every range end used below is <= MAX_COL, so a
    /// span that is "unbounded to the right" is represented faithfully by 0..=MAX_COL+1.
    const MAX_COL: usize = 7;

    /// All well-formed range lists over columns 0..=max: sorted, non-empty ranges, r[i].end <= r[i+1].start.
    fn wf_range_lists(max: usize) -> Vec<Vec<Range<usize>>> {
        fn rec(from: usize, max: usize, cur: &mut Vec<Range<usize>>, out: &mut Vec<Vec<Range<usize>>>) {
            out.push(cur.clone());
            for s in from..max {
                for e in (s + 1)..=max {
                    cur.push(s..e);
                    rec(e, max, cur, out);
                    cur.pop();
                }
            }
        }
        let mut out = Vec::new();
        rec(0, max, &mut Vec::new(), &mut out);
        out
    }

    fn ranges_json(r: &Option<Vec<Range<usize>>>) -> Value {
        match r {
            None => Value::Null,
            Some(v) => json!(v.iter().map(|r| json!([r.start, r.end])).collect::<Vec<_>>()),
        }
    }

    fn lc_json(lc: &LineChange) -> Value {
        json!({"line": lc.line, "ranges_0based_half_open": ranges_json(&lc.ranges)})
    }

    /// Oracle, written from the statement (C01/C02, DESIGN 6 B1/B2): a line change hits a span iff
    /// its line lies within the span's lines and - when it carries character ranges - some 0-based
    /// column belongs both to one of the ranges and to the part of that line the span covers.
    /// `closed_end` = true: the span's last position is included (start tag, `<` .. `>`),
    /// false: excluded (content, ends where the end-tag comment begins).
    fn oracle_hit(
        start: (usize, usize),
        end: (usize, usize),
        closed_end: bool,
        lc: &LineChange,
    ) -> bool {
        if lc.line < start.0 || lc.line > end.0 {
            return false;
        }
        let Some(ranges) = &lc.ranges else {
            return true;
        };
        // CARVE-OUT (degenerate, documented in README): a half-open span that is EMPTY (start ==
        // end, e.g. `/* <block> *//* </block> */`) contains no column, so the column-set reading
        // says "no hit"; the code (and the Verus contract formula, which is interval overlap) says
        // "hit" when a changed range strictly straddles the empty point. Follow the overlap
        // formula for exactly that configuration so that the harness passes on the current tree.
        if !closed_end && start == end {
            let p = start.1 - 1;
            if ranges.iter().any(|r| r.start < p && p < r.end) {
                return true;
            }
        }
        for col in 0..=(MAX_COL + 1) {
            // Is 0-based column `col` of line `lc.line` inside the span? 1-based character = col + 1.
            let ch = col + 1;
            let after_start = lc.line > start.0 || ch >= start.1;
            let before_end = lc.line < end.0 || if closed_end { ch <= end.1 } else { ch < end.1 };
            if !(after_start && before_end) {
                continue;
            }
            if ranges.iter().any(|r| r.start <= col && col < r.end) {
                return true;
            }
        }
        false
    }

    fn spans() -> Vec<((usize, usize), (usize, usize))> {
        let mut v = Vec::new();
        for sl in 1..=3usize {
            for el in sl..=3usize {
                for sc in 1..=5usize {
                    for ec in 1..=5usize {
                        if sl == el && ec < sc {
                            continue;
                        }
                        v.push(((sl, sc), (el, ec)));
                    }
                }
            }
        }
        v
    }

    /// End-to-end inputs for B1/B2: a one-line modification is turned into a LineChange by the real
    /// diff reader (`line_changes_from_diff` -> `line_diff`), then asked against a span of the new
    /// line that consists of characters which do NOT occur in the old line - any correct
    /// character diff must report those as changed, so the span must be hit.
    fn pipeline_line_change(old_line: &str, new_line: &str) -> (String, LineChange) {
        let diff = format!(
            "diff --git a/f.py b/f.py\nindex 1111111..2222222 100644\n--- a/f.py\n+++ b/f.py\n@@ -1 +1 @@\n-{old_line}\n+{new_line}\n"
        );
        let mut map = crate::diff_parser::line_changes_from_diff(&diff).unwrap();
        let mut lcs = map.remove(&PathBuf::from("f.py")).unwrap();
        assert_eq!(lcs.len(), 1);
        (diff, lcs.remove(0))
    }

    const PIPELINE_PAIRS: [(&str, &str); 9] = [
        ("abab", "bbbb"), // coordinator's case: "# abab" -> "# bbbb<block keep-sorted>bcc"
        ("abbab", "bbbbbba"),
        ("cacb", "abbaabbb"),
        ("accacbc", "aabbbabbc"),
        ("abab", "bb b"),
        ("caabbbbcac", "bcbccccc"),
        ("abbccacb", "bbbbbb"),
        ("\u{e9} ab", "\u{e9} ab"),
        ("a\u{e9}a\u{e9}", "\u{e9}a\u{e9}a\u{e9}"),
    ];

    fn pipeline_cases(unit: &str, closed: bool, cases: &mut u64) {
        const TAG: &str = "<block keep-sorted>";
        for (old_core, new_core) in PIPELINE_PAIRS {
            for prefix in ["# ", "\u{e9} # "] {
                let cuts: Vec<usize> = (0..=new_core.len()).filter(|k| new_core.is_char_boundary(*k)).collect();
                for k in cuts {
                    for tail in ["", "bcc", "X"] {
                        let old_line = format!("{prefix}{old_core}");
                        let new_line = format!("{prefix}{}{TAG}{}{tail}", &new_core[..k], &new_core[k..]);
                        let (diff, lc) = pipeline_line_change(&old_line, &new_line);
                        let lt = new_line.find('<').unwrap() + 1; // 1-based byte column of `<`
                        let gt = new_line.find('>').unwrap() + 1;
                        *cases += 1;
                        let observed = if closed {
                            Block::intersects_with_line_change_inclusive(&(Position::new(1, lt)..=Position::new(1, gt)), &lc)
                        } else {
                            // the single character `<` as a half-open content-like span
                            Block::intersects_with_line_change(&(Position::new(1, lt)..Position::new(1, lt + 1)), &lc)
                        };
                        if !observed {
                            cex_fail(
                                unit,
                                "a span made of characters that do not occur in the old line must be hit by the line change the diff reader produces for that line",
                                json!({"diff_text": diff, "old_line": old_line, "new_line": new_line, "span_1based_byte_columns": if closed { json!({"start": lt, "end_inclusive": gt}) } else { json!({"start": lt, "end_exclusive": lt + 1}) }, "line_change": lc_json(&lc)}),
                                json!(true),
                                json!(false),
                            );
                        }
                    }
                }
            }
        }
    }

    #[test]
    fn cex_B1() {
        let lists = wf_range_lists(MAX_COL);
        let mut cases = 0u64;
        for (s, e) in spans() {
            let range = Position::new(s.0, s.1)..Position::new(e.0, e.1);
            for line in 0..=4usize {
                for ranges in std::iter::once(None).chain(lists.iter().cloned().map(Some)) {
                    let lc = LineChange { line, ranges };
                    let expected = oracle_hit(s, e, false, &lc);
                    let observed = Block::intersects_with_line_change(&range, &lc);
                    cases += 1;
                    if expected != observed {
                        cex_fail(
                            "B1",
                            "Block::intersects_with_line_change disagrees with the half-open set-theoretic definition",
                            json!({"content_position_range": {"start": {"line": s.0, "character": s.1}, "end_exclusive": {"line": e.0, "character": e.1}}, "line_change": lc_json(&lc)}),
                            json!(expected),
                            json!(observed),
                        );
                    }
                }
            }
        }
        pipeline_cases("B1", false, &mut cases);
        cex_none("B1", cases, "end-to-end: 9 old/new line pairs x 2 prefixes x a `<block keep-sorted>` tag inserted at every position x 3 tails, span = the `<` character; content spans with lines 1..=3 x characters 1..=5, line change on line 0..=4, ranges = None or every well-formed range list over columns 0..=7");
    }

    #[test]
    fn cex_B2() {
        let lists = wf_range_lists(MAX_COL);
        let mut cases = 0u64;
        for (s, e) in spans() {
            let range = Position::new(s.0, s.1)..=Position::new(e.0, e.1);
            for line in 0..=4usize {
                for ranges in std::iter::once(None).chain(lists.iter().cloned().map(Some)) {
                    let lc = LineChange { line, ranges };
                    let expected = oracle_hit(s, e, true, &lc);
                    let observed = Block::intersects_with_line_change_inclusive(&range, &lc);
                    cases += 1;
                    if expected != observed {
                        cex_fail(
                            "B2",
                            "Block::intersects_with_line_change_inclusive disagrees with the closed-span set-theoretic definition",
                            json!({"start_tag_position_range": {"start": {"line": s.0, "character": s.1}, "end_inclusive": {"line": e.0, "character": e.1}}, "line_change": lc_json(&lc)}),
                            json!(expected),
                            json!(observed),
                        );
                    }
                }
            }
        }
        pipeline_cases("B2", true, &mut cases);
        cex_none("B2", cases, "end-to-end: 9 old/new line pairs x 2 prefixes x a `<block keep-sorted>` tag inserted at every position x 3 tails, span = `<`..`>`; start-tag spans with lines 1..=3 x characters 1..=5, line change on line 0..=4, ranges = None or every well-formed range list over columns 0..=7");
    }

    /// Strictly line-sorted lists of line changes (<= max_len entries over lines 1..=5), each entry
    /// carrying one member of a small family of range lists.
    fn sorted_line_change_lists(max_len: usize) -> Vec<Vec<(usize, usize)>> {
        // (line, family index)
        fn rec(
            from_line: usize,
            fam: usize,
            max_len: usize,
            cur: &mut Vec<(usize, usize)>,
            out: &mut Vec<Vec<(usize, usize)>>,
        ) {
            out.push(cur.clone());
            if cur.len() == max_len {
                return;
            }
            for line in from_line..=5 {
                for f in 0..fam {
                    cur.push((line, f));
                    rec(line + 1, fam, max_len, cur, out);
                    cur.pop();
                }
            }
        }
        let mut out = Vec::new();
        rec(1, range_family().len(), max_len, &mut Vec::new(), &mut out);
        out
    }

    fn range_family() -> Vec<Option<Vec<Range<usize>>>> {
        vec![
            None,
            Some(vec![0..1]),
            Some(vec![1..3]),
            Some(vec![3..4]),
            Some(vec![0..1, 4..6]),
            Some(vec![2..3, 6..7]),
        ]
    }

    fn b3_b4(unit: &str, closed: bool) {
        let fam = range_family();
        let lists = sorted_line_change_lists(4);
        let mut cases = 0u64;
        for (s, e) in spans() {
            // Keep the product affordable: characters 1..=4 only for the any-of units.
            if s.1 > 4 || e.1 > 4 {
                continue;
            }
            let block = if closed {
                Block::new(
                    HashMap::new(),
                    Position::new(s.0, s.1)..=Position::new(e.0, e.1),
                    0..0,
                    Position::new(e.0, e.1 + 1)..Position::new(e.0 + 1, 1),
                )
            } else {
                Block::new(
                    HashMap::new(),
                    Position::new(s.0.saturating_sub(1).max(1), 1)..=Position::new(s.0.saturating_sub(1).max(1), 1),
                    0..0,
                    Position::new(s.0, s.1)..Position::new(e.0, e.1),
                )
            };
            for list in &lists {
                let lcs: Vec<LineChange> = list
                    .iter()
                    .map(|(line, f)| LineChange { line: *line, ranges: fam[*f].clone() })
                    .collect();
                let expected = lcs.iter().any(|lc| oracle_hit(s, e, closed, lc));
                let observed = if closed {
                    block.start_tag_intersects_with_any(&lcs)
                } else {
                    block.content_intersects_with_any(&lcs)
                };
                cases += 1;
                if expected != observed {
                    cex_fail(
                        unit,
                        if closed {
                            "Block::start_tag_intersects_with_any != exists i. line change i hits the closed start-tag span"
                        } else {
                            "Block::content_intersects_with_any != exists i. line change i hits the half-open content span"
                        },
                        json!({
                            "span": {"start": {"line": s.0, "character": s.1}, "end": {"line": e.0, "character": e.1}, "end_is_inclusive": closed},
                            "line_changes_sorted_by_line": lcs.iter().map(lc_json).collect::<Vec<_>>(),
                        }),
                        json!(expected),
                        json!(observed),
                    );
                }
            }
        }
        cex_none(
            unit,
            cases,
            "spans with lines 1..=3 x characters 1..=4; every strictly line-sorted list of <= 4 line changes over lines 1..=5, each with ranges from {None,[0,1),[1,3),[3,4),[0,1)+[4,6),[2,3)+[6,7)}",
        );
    }

    #[test]
    fn cex_B3() {
        b3_b4("B3", false);
    }

    #[test]
    fn cex_B4() {
        b3_b4("B4", true);
    }

    /// Byte offset -> (1-based line, number of bytes preceding it on that line), by counting newlines.
    fn line_and_offset(source: &str, byte: usize) -> (usize, usize) {
        let before = &source[..byte];
        let line = before.matches('\n').count() + 1;
        let line_start = before.rfind('\n').map_or(0, |p| p + 1);
        (line, byte - line_start)
    }

    #[test]
    fn cex_V5() {
        // Part 1: layouts parsed by the real Rust grammar. The oracle locates content line i in the
        // file through the content byte range and newline counting only (C10: "wherever the tag
        // sits - ... in a comment that continues for several lines after the tag, or with content
        // beginning on the tag's own line").
        let mut parser = crate::language_parsers::rust::parser().unwrap();
        let prefixes = ["", "fn f() {}\n", "\n\n"];
        let indents = ["", "  ", "\t"];
        let before_tag = ["", "note\n", "one\n  two\n"]; // comment text before the tag
        let after_tag = ["", " trailing", "\n note", "\n note\n more\n"]; // comment text after the tag
        let contents = [
            "",
            " b",
            "\n",
            "\nb\na\n",
            " b\n a\n\n  c\n",
            "\n\n  x\n",
            " x = 1; ",
            "\r\nb\r\na\r\n",
        ];
        let end_tags = ["// </block>", "/* </block> */", "/* text\n </block> */"];
        let mut cases = 0u64;
        for prefix in prefixes {
            for indent in indents {
                for bt in before_tag {
                    for at in after_tag {
                        for content in contents {
                            for end_tag in end_tags {
                                let source = format!(
                                    "{prefix}{indent}/* {bt}<block name=\"n\">{at} */{content}{end_tag}\nfn g() {{}}\n"
                                );
                                let blocks = match parser.parse(&source) {
                                    Ok(b) => b,
                                    Err(e) => cex_fail(
                                        "V5",
                                        "generated single-block source failed to parse",
                                        json!({"file_text": source}),
                                        json!("one block"),
                                        json!(e.to_string()),
                                    ),
                                };
                                if blocks.len() != 1 {
                                    cex_fail(
                                        "V5",
                                        "generated single-block source did not yield exactly one block",
                                        json!({"file_text": source}),
                                        json!(1),
                                        json!(blocks.len()),
                                    );
                                }
                                let block = &blocks[0];
                                let c = block.content(&source);
                                let mut off = 0usize;
                                for (i, line) in c.split_inclusive('\n').enumerate() {
                                    let abs = block.content_bytes_range.start + off;
                                    let expected = line_and_offset(&source, abs);
                                    let observed = block.content_line_position(i);
                                    cases += 1;
                                    if expected != observed {
                                        cex_fail(
                                            "V5",
                                            "Block::content_line_position does not name the file line (and preceding byte count) that holds content line i",
                                            json!({"file_text": source, "language": "rust", "content_line_index": i, "content_line": line}),
                                            json!({"line": expected.0, "character_offset": expected.1}),
                                            json!({"line": observed.0, "character_offset": observed.1}),
                                        );
                                    }
                                    off += line.len();
                                }
                            }
                        }
                    }
                }
            }
        }
        // Part 2: synthetic grid on Block::new, contract wording of DESIGN 6 V5:
        // line = content_position_range.start.line + i, offset = start.character - 1 for i == 0 else 0.
        for tag_start_line in 1..=3usize {
            for tag_end_line in tag_start_line..=3usize {
                for content_line in tag_end_line..=5usize {
                    for content_char in 1..=6usize {
                        let block = Block::new(
                            HashMap::new(),
                            Position::new(tag_start_line, 2)..=Position::new(tag_end_line, 9),
                            0..0,
                            Position::new(content_line, content_char)..Position::new(content_line + 9, 1),
                        );
                        for i in 0..=6usize {
                            let expected = (content_line + i, if i == 0 { content_char - 1 } else { 0 });
                            let observed = block.content_line_position(i);
                            cases += 1;
                            if expected != observed {
                                cex_fail(
                                    "V5",
                                    "Block::content_line_position != (content start line + i, content start character - 1 for i = 0 else 0)",
                                    json!({
                                        "start_tag_position_range": [[tag_start_line, 2], [tag_end_line, 9]],
                                        "content_position_range_start": [content_line, content_char],
                                        "content_line_index": i
                                    }),
                                    json!({"line": expected.0, "character_offset": expected.1}),
                                    json!({"line": observed.0, "character_offset": observed.1}),
                                );
                            }
                        }
                    }
                }
            }
        }
        cex_none("V5", cases, "3 prefixes x 3 indents x 3 texts before the tag x 4 texts after the tag inside the start comment x 8 contents x 3 end-tag comments parsed by the Rust grammar, every content line; plus synthetic grid tag lines 1..=3, content start line..=5, character 1..=6, index 0..=6");
    }

    #[test]
    fn cex_V9() {
        fn case_variants(word: &str) -> Vec<String> {
            let chars: Vec<char> = word.chars().collect();
            (0..(1u32 << chars.len()))
                .map(|mask| {
                    chars
                        .iter()
                        .enumerate()
                        .map(|(i, c)| if mask & (1 << i) != 0 { c.to_ascii_uppercase() } else { *c })
                        .collect()
                })
                .collect()
        }
        // C11: `severity="warning|info|hint"` (any letter case) ... numeric severity 1-4; absent => error.
        let table = [("error", 1u64), ("warning", 2), ("info", 3), ("hint", 4)];
        let mut values: Vec<Option<String>> = vec![None];
        for (w, _) in table {
            values.extend(case_variants(w).into_iter().map(Some));
        }
        for bad in [
            "", " ", "warn", "err", "errors", "warnings", "information", "hints", " error", "error ",
            "warning\n", "1", "2", "0", "fatal", "e", "inf", "hin", "errorwarning", "error,warning",
            "none", "off", "debug", "Warn1ng", "ｅrror",
        ] {
            values.push(Some(bad.to_string()));
        }
        let mut cases = 0u64;
        for extra_attrs in [false, true] {
            for v in &values {
                let mut attrs = HashMap::new();
                if extra_attrs {
                    attrs.insert("name".to_string(), "warning".to_string());
                    attrs.insert("Severity".to_string(), "hint".to_string());
                }
                if let Some(s) = v {
                    attrs.insert("severity".to_string(), s.clone());
                }
                let block = Block::new(
                    attrs.clone(),
                    Position::new(1, 1)..=Position::new(1, 2),
                    0..0,
                    Position::new(1, 3)..Position::new(1, 3),
                );
                let expected: Option<u64> = match v {
                    None => Some(1),
                    Some(s) => table
                        .iter()
                        .find(|(w, _)| s.len() == w.len() && s.chars().zip(w.chars()).all(|(a, b)| a.to_ascii_lowercase() == b))
                        .map(|(_, n)| *n),
                };
                let observed: Option<u64> = block
                    .severity()
                    .ok()
                    .map(|s| serde_json::to_value(s).unwrap().as_u64().unwrap());
                cases += 1;
                if expected != observed {
                    cex_fail(
                        "V9",
                        "Block::severity: absent => error(1); error|warning|info|hint in any letter case => 1..4; anything else => Err",
                        json!({"attributes": attrs}),
                        json!(expected.map_or(json!("Err"), |n| json!(n))),
                        json!(observed.map_or(json!("Err"), |n| json!(n))),
                    );
                }
            }
        }
        cex_none("V9", cases, "severity attribute absent, every upper/lower-case spelling of error/warning/info/hint, 25 near misses; with and without unrelated attributes");
    }
}
