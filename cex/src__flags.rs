
// ---------------------------------------------------------------------------------------------
// verif_cex: small-scope exhaustive differential harnesses for src/flags.rs
// units: F1 F1p                    (see /verif/cex/README.md, /verif/cex/MAP.json)
// This text is appended verbatim to a scratch copy of src/flags.rs.
// ---------------------------------------------------------------------------------------------
#[cfg(test)]
#[allow(unused_imports, dead_code, clippy::all)]
mod verif_cex {
    use super::*;
    use serde_json::{Value, json};

    fn cex_fail(unit: &str, what: &str, input: Value, expected: Value, observed: Value) -> ! {
        println!(
            "VERIF-CEX {}",
            json!({"unit": unit, "what": what, "input": input, "expected": expected, "observed": observed})
        );
        panic!("counterexample for unit {unit}: {what}");
    }

    fn cex_none(unit: &str, cases: u64, bound: &str) {
        println!(
            "VERIF-CEX-NONE {}",
            json!({"unit": unit, "cases": cases, "bound": bound})
        );
    }

    /// The seven validators of the README ("available-validators").
    const NAMES: [&str; 7] = ["affects", "keep-sorted", "keep-unique", "line-pattern", "line-count", "check-ai", "check-lua"];

    fn subset(mask: usize) -> Vec<&'static str> {
        (0..7).filter(|i| mask & (1 << i) != 0).map(|i| NAMES[i]).collect()
    }

    #[test]
    fn cex_F1() {
        let languages = crate::language_parsers::language_parsers().unwrap();
        let supported: HashSet<&OsString> = languages.keys().collect();
        // (mapping arguments, is every VALUE a supported grammar?)
        let mappings: [(&[&str], bool); 12] = [
            // a VALUE must be a supported grammar itself: mappings do not chain (the lookup applies one step)
            (&["cxx=c++", "c++=cpp"], false),
            (&["c++=cpp", "cxx=c++"], false),
            (&["cxx=cxx"], false),
            (&["a=b", "b=a"], false),
            (&[], true),
            (&["cxx=cpp"], true),
            (&["cxx=cpp", "c++=cpp"], true),
            (&["foo=bar"], false),
            (&["rust=rs", "x=nope"], false),
            (&["py=python"], false),
            (&["mk=Makefile"], true),
            (&["ts2=d.ts", "gomod=go.mod"], true),
        ];
        let mut cases = 0u64;
        let mut check = |d_mask: usize, e_mask: usize, d_repeat: bool, long_flags: bool, mapping: &(&[&str], bool), list: bool, cases: &mut u64| {
            let mut argv: Vec<String> = vec!["blockwatch".into()];
            let d = subset(d_mask);
            let e = subset(e_mask);
            for name in &d {
                argv.push(if long_flags { "--disable".into() } else { "-d".into() });
                argv.push(name.to_string());
            }
            if d_repeat {
                // repeating a flag composes as set union
                if let Some(first) = d.first() {
                    argv.push("-d".into());
                    argv.push(first.to_string());
                }
            }
            for name in &e {
                argv.push(if long_flags { "--enable".into() } else { "-e".into() });
                argv.push(name.to_string());
            }
            for m in mapping.0 {
                argv.push("-E".into());
                argv.push(m.to_string());
            }
            if list {
                argv.push("list".into());
            }
            *cases += 1;
            let input = json!({"argv": argv});
            let args = match Args::try_parse_from(&argv) {
                Ok(a) => a,
                Err(err) => cex_fail("F1", "a command line naming only known validators and KEY=VALUE mappings must be accepted by the parser", input, json!("parsed"), json!(err.to_string())),
            };
            // accessors: exactly the names given (as sets)
            let mut got_d: Vec<&str> = args.disabled_validators().into_iter().collect();
            got_d.sort();
            let mut got_e: Vec<&str> = args.enabled_validators().into_iter().collect();
            got_e.sort();
            let (mut want_d, mut want_e) = (d.clone(), e.clone());
            want_d.sort();
            want_e.sort();
            if got_d != want_d || got_e != want_e {
                cex_fail(
                    "F1",
                    "disabled_validators()/enabled_validators() must be exactly the sets named on the command line (repeats compose as union)",
                    input,
                    json!({"disabled": want_d, "enabled": want_e}),
                    json!({"disabled": got_d, "enabled": got_e}),
                );
            }
            // validate: Err iff both flags are used, or a mapping targets an unsupported grammar
            let expected_ok = !(d_mask != 0 && e_mask != 0) && mapping.1;
            let observed = args.validate(&supported);
            if observed.is_ok() != expected_ok {
                cex_fail(
                    "F1",
                    "Args::validate: using --enable together with --disable, or mapping an extension onto an unsupported grammar, is rejected; everything else is accepted",
                    input,
                    json!(if expected_ok { "Ok" } else { "Err" }),
                    json!(observed.map_or_else(|e| format!("Err: {e}"), |_| "Ok".to_string())),
                );
            }
        };
        // every subset for -d x {no -e, each single -e, a pair, all}; and the mirror image
        let few = [0usize, 1, 2, 4, 8, 16, 32, 64, 0b0000110, 0b1111111];
        for mask in 0..128usize {
            for other in few {
                check(mask, other, mask % 3 == 0, mask % 2 == 0, &mappings[(mask + other) % mappings.len()], (mask + other) % 5 == 0, &mut cases);
                check(other, mask, false, mask % 2 == 1, &mappings[(mask * 3 + other) % mappings.len()], (mask + other) % 7 == 0, &mut cases);
            }
        }
        // every mapping with no / one-sided / two-sided flags
        for mapping in &mappings {
            for (d_mask, e_mask) in [(0usize, 0usize), (3, 0), (0, 5), (2, 2), (127, 127)] {
                for list in [false, true] {
                    check(d_mask, e_mask, false, false, mapping, list, &mut cases);
                }
            }
        }
        // an unknown validator name is rejected before anything is validated (by the argument parser)
        for bad in ["nope", "keep_sorted", "Keep-Sorted", "keep-sorted ", " keep-sorted", "", "all", "affect", "check-ai,check-lua", "*"] {
            for flag in ["-d", "-e", "--disable", "--enable"] {
                for with_good in [false, true] {
                    let mut argv: Vec<String> = vec!["blockwatch".into()];
                    if with_good {
                        argv.push(flag.into());
                        argv.push("line-count".into());
                    }
                    argv.push(flag.into());
                    argv.push(bad.into());
                    cases += 1;
                    if let Ok(args) = Args::try_parse_from(&argv) {
                        cex_fail(
                            "F1",
                            "naming an unknown validator must be rejected when the command line is parsed",
                            json!({"argv": argv}),
                            json!("Err"),
                            json!({"disabled": args.disabled_validators().into_iter().collect::<Vec<_>>(), "enabled": args.enabled_validators().into_iter().collect::<Vec<_>>()}),
                        );
                    }
                }
            }
        }
        cex_none(
            "F1",
            cases,
            "every subset of the 7 validators for -d against 10 -e subsets and vice versa (short and long flags, repeated flags, with and without `list`), 12 -E mapping sets (supported and unsupported targets, chained and self mappings) x 5 flag situations; 80 command lines naming an unknown validator",
        );
    }

    #[test]
    fn cex_F1p() {
        let mut cases = 0u64;
        let mut candidates: Vec<String> = NAMES.iter().map(|s| s.to_string()).collect();
        for n in NAMES {
            candidates.push(n.to_uppercase());
            candidates.push(format!(" {n}"));
            candidates.push(format!("{n} "));
            candidates.push(n.replace('-', "_"));
            candidates.push(n[..n.len() - 1].to_string());
            candidates.push(format!("{n}s"));
            candidates.push(format!("{n},{n}"));
        }
        for other in ["", " ", "all", "none", "*", "check", "keep", "sorted", "lua", "ai", "fake-sync", "-d"] {
            candidates.push(other.to_string());
        }
        for c in &candidates {
            let expected = if NAMES.contains(&c.as_str()) { Some(c.clone()) } else { None };
            let observed = parse_validator(c).ok();
            cases += 1;
            if expected != observed {
                cex_fail(
                    "F1p",
                    "parse_validator: Ok(name) exactly for the seven validator names, Err for everything else",
                    json!({"value": c}),
                    json!(expected.map_or(json!("Err"), |s| json!(s))),
                    json!(observed.map_or(json!("Err"), |s| json!(s))),
                );
            }
        }
        cex_none("F1p", cases, "the 7 validator names, 7 near misses of each (upper case, leading/trailing blank, underscore, truncated, plural, comma pair) and 12 other words");
    }
}
