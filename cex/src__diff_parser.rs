
// ---------------------------------------------------------------------------------------------
// verif_cex: small-scope exhaustive differential harnesses for src/diff_parser.rs
// units: Db Da Dc Dd               (see /verif/cex/README.md, /verif/cex/MAP.json)
// This text is appended verbatim to a scratch copy of src/diff_parser.rs.
// ---------------------------------------------------------------------------------------------
#[cfg(test)]
#[allow(unused_imports, dead_code, clippy::all)]
mod verif_cex {
    use super::*;
    use serde_json::{Value, json};

    fn cex_fail(unit: &str, what: &str, input: Value, expected: Value, observed: Value) -> ! {
        println!(
            "VERIF-CEX {}",
            json!({"unit": unit, "what": what, "input": input, "expected": expected, "observed": observed})
        );
        panic!("counterexample for unit {unit}: {what}");
    }

    fn cex_none(unit: &str, cases: u64, bound: &str) {
        println!(
            "VERIF-CEX-NONE {}",
            json!({"unit": unit, "cases": cases, "bound": bound})
        );
    }

    struct Lcg(u64);
    impl Lcg {
        fn from_env() -> Self {
            let seed = std::env::var("VERIF_SEED")
                .ok()
                .and_then(|s| s.parse::<u64>().ok())
                .unwrap_or(1);
            Lcg(seed.wrapping_mul(0x9E3779B97F4A7C15).wrapping_add(0x1234567))
        }
        fn next(&mut self, n: u64) -> u64 {
            self.0 = self.0.wrapping_mul(6364136223846793005).wrapping_add(1442695040888963407);
            (self.0 >> 33) % n
        }
    }

    // ----------------------------------------------------------------------------------------
    // Edit scripts and a git-style unified diff writer
    // ----------------------------------------------------------------------------------------

    /// An edit script on an old file of `del.len()` lines: `del[i]` = old line i+1 is deleted,
    /// `ins[g]` = number of new lines inserted in gap g (before old line g+1; gap n = end of file).
    #[derive(Clone, Debug)]
    struct Script {
        del: Vec<bool>,
        ins: Vec<usize>,
        old_no_eol: bool,
        new_no_eol: bool,
    }

    #[derive(Clone, Debug, PartialEq)]
    enum Op {
        Keep(String),
        Del(String),
        Ins(String),
    }

    #[derive(Clone, Debug)]
    enum Seg {
        Keep(String),
        /// A maximal changed region; git prints all removed lines first, then all added lines.
        Change { dels: Vec<String>, ins: Vec<String> },
    }

    fn old_line_text(i: usize) -> String {
        format!("old{}{}", i + 1, "x".repeat(i % 3))
    }

    fn new_line_text(gap: usize, j: usize) -> String {
        format!("{}new{}_{}", "  ".repeat(j % 2), gap, j)
    }

    impl Script {
        fn old_lines(&self) -> Vec<String> {
            (0..self.del.len()).map(old_line_text).collect()
        }

        fn ops(&self) -> Vec<Op> {
            let n = self.del.len();
            let mut ops = Vec::new();
            for g in 0..=n {
                for j in 0..self.ins[g] {
                    ops.push(Op::Ins(new_line_text(g, j)));
                }
                if g < n {
                    if self.del[g] {
                        ops.push(Op::Del(old_line_text(g)));
                    } else {
                        ops.push(Op::Keep(old_line_text(g)));
                    }
                }
            }
            // A kept line whose end-of-line state differs between the two files is not "kept" for
            // git: it is printed as removed + added (with a `\ No newline at end of file` marker).
            let old_total = n;
            let new_total = ops.iter().filter(|o| !matches!(o, Op::Del(_))).count();
            let (mut o, mut t) = (0usize, 0usize);
            let mut out = Vec::new();
            for op in ops {
                match op {
                    Op::Keep(s) => {
                        o += 1;
                        t += 1;
                        let old_bare = self.old_no_eol && o == old_total;
                        let new_bare = self.new_no_eol && t == new_total;
                        if old_bare != new_bare {
                            out.push(Op::Del(s.clone()));
                            out.push(Op::Ins(s));
                        } else {
                            out.push(Op::Keep(s));
                        }
                    }
                    Op::Del(s) => {
                        o += 1;
                        out.push(Op::Del(s));
                    }
                    Op::Ins(s) => {
                        t += 1;
                        out.push(Op::Ins(s));
                    }
                }
            }
            out
        }

        fn segments(&self) -> Vec<Seg> {
            let mut segs: Vec<Seg> = Vec::new();
            for op in self.ops() {
                match op {
                    Op::Keep(s) => segs.push(Seg::Keep(s)),
                    Op::Del(s) => match segs.last_mut() {
                        Some(Seg::Change { dels, .. }) => dels.push(s),
                        _ => segs.push(Seg::Change { dels: vec![s], ins: vec![] }),
                    },
                    Op::Ins(s) => match segs.last_mut() {
                        Some(Seg::Change { ins, .. }) => ins.push(s),
                        _ => segs.push(Seg::Change { dels: vec![], ins: vec![s] }),
                    },
                }
            }
            segs
        }

        fn new_lines(&self) -> Vec<String> {
            self.ops()
                .into_iter()
                .filter_map(|o| match o {
                    Op::Keep(s) | Op::Ins(s) => Some(s),
                    Op::Del(_) => None,
                })
                .collect()
        }

        fn is_identity(&self) -> bool {
            self.segments().iter().all(|s| matches!(s, Seg::Keep(_)))
        }

        fn to_json(&self) -> Value {
            json!({
                "old_file_lines": self.old_lines(),
                "new_file_lines": self.new_lines(),
                "old_file_ends_without_newline": self.old_no_eol,
                "new_file_ends_without_newline": self.new_no_eol,
            })
        }
    }

    /// Expected entry: line (None = not checked, KF1 carve-out) and ranges.
    type Expected = (Option<usize>, Option<Vec<Range<usize>>>);

    /// The oracle for D-b, written from C01 / DESIGN 6 D-b (i)-(v), NOT from the hunk walk:
    /// walk the edit script with an (old, new) line cursor;
    ///  (i)   every added line appears once, at its new-file line number, with Some(ranges) iff it is
    ///        paired with a removed line (j-th added of a region pairs with the j-th removed);
    ///  (ii)  a region that only removes lines contributes exactly one entry, with ranges None,
    ///  (iv)  located at the new-file line that follows the deletion site
    ///        [KF1 carve-out: the line number is only checked when the net line offset before the
    ///         deletion is zero (old cursor == new cursor); otherwise it is a wildcard];
    ///  (iii) nothing else.
    fn expected_line_changes(segs: &[Seg]) -> Vec<Expected> {
        let (mut o, mut t) = (1usize, 1usize);
        let mut out = Vec::new();
        for seg in segs {
            match seg {
                Seg::Keep(_) => {
                    o += 1;
                    t += 1;
                }
                Seg::Change { dels, ins } => {
                    if ins.is_empty() {
                        out.push((if o == t { Some(t) } else { None }, None));
                    }
                    for (j, added) in ins.iter().enumerate() {
                        let ranges = dels.get(j).map(|removed| line_diff(removed, added));
                        out.push((Some(t + j), ranges));
                    }
                    o += dels.len();
                    t += ins.len();
                }
            }
        }
        out
    }

    const NO_EOL: &str = "\\ No newline at end of file";

    /// Prints the hunks of a unified diff the way `git diff -U<context>` does.
    fn unified_hunks(script: &Script, context: usize) -> String {
        struct Row {
            kind: char,
            text: String,
            o_before: usize,
            t_before: usize,
        }
        let segs = script.segments();
        let mut rows: Vec<Row> = Vec::new();
        let (mut o, mut t) = (0usize, 0usize);
        for seg in &segs {
            match seg {
                Seg::Keep(s) => {
                    rows.push(Row { kind: ' ', text: s.clone(), o_before: o, t_before: t });
                    o += 1;
                    t += 1;
                }
                Seg::Change { dels, ins } => {
                    for s in dels {
                        rows.push(Row { kind: '-', text: s.clone(), o_before: o, t_before: t });
                        o += 1;
                    }
                    for s in ins {
                        rows.push(Row { kind: '+', text: s.clone(), o_before: o, t_before: t });
                        t += 1;
                    }
                }
            }
        }
        let (old_total, new_total) = (o, t);
        // Changed regions as row intervals.
        let mut regions: Vec<(usize, usize)> = Vec::new();
        let mut i = 0;
        while i < rows.len() {
            if rows[i].kind != ' ' {
                let s = i;
                while i < rows.len() && rows[i].kind != ' ' {
                    i += 1;
                }
                regions.push((s, i));
            } else {
                i += 1;
            }
        }
        // Group regions into hunks: regions whose context would touch or overlap are merged.
        let mut hunks: Vec<(usize, usize)> = Vec::new();
        for (s, e) in regions {
            let hs = s.saturating_sub(context);
            let he = (e + context).min(rows.len());
            match hunks.last_mut() {
                Some(last) if hs <= last.1 => last.1 = he,
                _ => hunks.push((hs, he)),
            }
        }
        let mut text = String::new();
        for (hs, he) in hunks {
            let src_len = rows[hs..he].iter().filter(|r| r.kind != '+').count();
            let tgt_len = rows[hs..he].iter().filter(|r| r.kind != '-').count();
            let src_start = if src_len > 0 { rows[hs].o_before + 1 } else { rows[hs].o_before };
            let tgt_start = if tgt_len > 0 { rows[hs].t_before + 1 } else { rows[hs].t_before };
            let fmt = |start: usize, len: usize| {
                if len == 1 { format!("{start}") } else { format!("{start},{len}") }
            };
            text.push_str(&format!(
                "@@ -{} +{} @@\n",
                fmt(src_start, src_len),
                fmt(tgt_start, tgt_len)
            ));
            for r in &rows[hs..he] {
                text.push(r.kind);
                text.push_str(&r.text);
                text.push('\n');
                let is_last_old = r.kind != '+' && r.o_before + 1 == old_total;
                let is_last_new = r.kind != '-' && r.t_before + 1 == new_total;
                let marker = match r.kind {
                    '-' => is_last_old && script.old_no_eol,
                    '+' => is_last_new && script.new_no_eol,
                    _ => is_last_old && script.old_no_eol && is_last_new && script.new_no_eol,
                };
                if marker {
                    text.push_str(NO_EOL);
                    text.push('\n');
                }
            }
        }
        text
    }

    fn file_diff(source: &str, target: &str, extra_headers: &str, script: &Script, context: usize) -> String {
        format!(
            "{extra_headers}--- {source}\n+++ {target}\n{}",
            unified_hunks(script, context)
        )
    }

    fn observed_json(v: &[LineChange]) -> Value {
        json!(
            v.iter()
                .map(|lc| json!({"line": lc.line, "ranges": lc.ranges.as_ref().map(|r| r.iter().map(|r| json!([r.start, r.end])).collect::<Vec<_>>())}))
                .collect::<Vec<_>>()
        )
    }

    fn expected_json(v: &[Expected]) -> Value {
        json!(
            v.iter()
                .map(|(line, ranges)| json!({
                    "line": line.map_or(json!("not checked (KF1 carve-out: net line offset before this pure deletion is not zero)"), |l| json!(l)),
                    "ranges": ranges.as_ref().map(|r| r.iter().map(|r| json!([r.start, r.end])).collect::<Vec<_>>())
                }))
                .collect::<Vec<_>>()
        )
    }

    fn matches_expected(expected: &[Expected], observed: &[LineChange]) -> bool {
        expected.len() == observed.len()
            && expected
                .iter()
                .zip(observed)
                .all(|((line, ranges), lc)| line.is_none_or(|l| l == lc.line) && *ranges == lc.ranges)
    }

    /// Enumerates all scripts for an old file of `n` lines with at most `max_ins` inserted lines per gap.
    fn all_scripts(n: usize, max_ins: usize, eol_variants: bool) -> Vec<Script> {
        let mut out = Vec::new();
        let gaps = n + 1;
        let ins_combos = (max_ins + 1).pow(gaps as u32);
        for del_mask in 0..(1usize << n) {
            for ins_code in 0..ins_combos {
                let del: Vec<bool> = (0..n).map(|i| del_mask & (1 << i) != 0).collect();
                let mut c = ins_code;
                let ins: Vec<usize> = (0..gaps)
                    .map(|_| {
                        let v = c % (max_ins + 1);
                        c /= max_ins + 1;
                        v
                    })
                    .collect();
                let new_total = del.iter().filter(|d| !**d).count() + ins.iter().sum::<usize>();
                let variants: &[(bool, bool)] = if eol_variants {
                    &[(false, false), (true, true), (true, false), (false, true)]
                } else {
                    &[(false, false)]
                };
                for (old_no_eol, new_no_eol) in variants {
                    if (*old_no_eol && n == 0) || (*new_no_eol && new_total == 0) {
                        continue;
                    }
                    let s = Script { del: del.clone(), ins: ins.clone(), old_no_eol: *old_no_eol, new_no_eol: *new_no_eol };
                    if !s.is_identity() {
                        out.push(s);
                    }
                }
            }
        }
        out
    }

    /// Counters of the marker-line part of the Db harness.
    #[derive(Default)]
    struct MarkerStats {
        /// diffs whose text contains at least one `\ No newline at end of file` line
        diffs_with_marker_text: u64,
        /// marker lines that unidiff kept INSIDE a parsed hunk
        markers_kept_in_hunk: u64,
        /// marker lines of the diff text that unidiff dropped (they follow the last real line of a hunk)
        markers_dropped: u64,
    }

    /// `line_wf` of /verif/contracts/prelude/diff_lines_spec.rs for a marker line (kind Other): no
    /// line number of either file, directly after a removed line, directly before an added line.
    fn marker_in_admissible_position(lines: &[Line], k: usize) -> bool {
        lines[k].source_line_no.is_none()
            && lines[k].target_line_no.is_none()
            && k > 0
            && lines[k - 1].is_removed()
            && k + 1 < lines.len()
            && lines[k + 1].is_added()
    }

    /// A marker line is no line of either file (C01 speaks of lines the diff adds, edits or deletes):
    /// the result for a diff with marker lines must be the result for the same diff with the marker
    /// lines deleted. Compared with `==` on the whole list (lines and ranges).
    fn check_db_marker(diff: &str, script: &Script, context: usize, observed: &[LineChange], stats: &mut MarkerStats) {
        let marker_lines = diff.lines().filter(|l| l.starts_with('\\')).count() as u64;
        if marker_lines == 0 {
            return;
        }
        stats.diffs_with_marker_text += 1;
        let input = json!({"diff_text": diff, "edit": script.to_json(), "context_lines": context});
        let patch_set = PatchSet::from_str(diff).unwrap();
        let mut kept = 0u64;
        for (hi, hunk) in patch_set.files()[0].hunks().iter().enumerate() {
            let lines = hunk.lines();
            for k in 0..lines.len() {
                if lines[k].is_added() || lines[k].is_removed() || lines[k].is_context() {
                    continue;
                }
                kept += 1;
                if !marker_in_admissible_position(lines, k) {
                    cex_fail(
                        "Db",
                        "a marker line kept inside a parsed hunk is not in the position the contract admits (no line numbers, directly after a removed line, directly before an added line)",
                        input,
                        json!("marker_wf(lines, k)"),
                        json!({"hunk": hi, "line": k, "line_type": lines[k].line_type, "value": lines[k].value}),
                    );
                }
            }
        }
        stats.markers_kept_in_hunk += kept;
        stats.markers_dropped += marker_lines - kept;
        let without: String = diff.lines().filter(|l| !l.starts_with('\\')).map(|l| format!("{l}\n")).collect();
        let patch_set_without = match PatchSet::from_str(&without) {
            Ok(p) => p,
            Err(e) => cex_fail(
                "Db",
                "the diff with its marker lines deleted was rejected by the diff reader",
                json!({"diff_text_without_marker_lines": without, "diff_text": diff}),
                json!("parsed"),
                json!(e.to_string()),
            ),
        };
        let observed_without = line_changes(&patch_set_without.files()[0]);
        if observed_without != observed {
            cex_fail(
                "Db",
                "line_changes: a `\\ No newline at end of file` marker line is no line of either file, so the result must be the result for the same diff with the marker lines deleted",
                json!({"diff_text": diff, "diff_text_without_marker_lines": without, "edit": script.to_json(), "context_lines": context}),
                observed_json(&observed_without),
                observed_json(observed),
            );
        }
    }

    fn check_db(script: &Script, context: usize, cases: &mut u64, stats: &mut MarkerStats) {
        let diff = format!(
            "diff --git a/f.txt b/f.txt\nindex 1111111..2222222 100644\n{}",
            file_diff("a/f.txt", "b/f.txt", "", script, context)
        );
        let patch_set = match PatchSet::from_str(&diff) {
            Ok(p) => p,
            Err(e) => cex_fail(
                "Db",
                "the generated git-style diff was rejected by the diff reader",
                json!({"diff_text": diff, "edit": script.to_json(), "context_lines": context}),
                json!("parsed"),
                json!(e.to_string()),
            ),
        };
        if patch_set.files().len() != 1 {
            cex_fail(
                "Db",
                "the generated one-file diff was not read as one file",
                json!({"diff_text": diff, "edit": script.to_json(), "context_lines": context}),
                json!(1),
                json!(patch_set.files().len()),
            );
        }
        let observed = line_changes(&patch_set.files()[0]);
        let expected = expected_line_changes(&script.segments());
        *cases += 1;
        if !matches_expected(&expected, &observed) {
            cex_fail(
                "Db",
                "line_changes: entries differ from {every added line at its new-file number, Some(ranges) iff paired with a removed line; one ranges=None entry per pure-deletion region at the following new-file line; nothing else}",
                json!({"diff_text": diff, "edit": script.to_json(), "context_lines": context}),
                expected_json(&expected),
                observed_json(&observed),
            );
        }
        // (v) strictly sorted by line whenever the KF1 carve-out condition holds for every deletion.
        if expected.iter().all(|(l, _)| l.is_some()) && !observed.windows(2).all(|w| w[0].line < w[1].line) {
            cex_fail(
                "Db",
                "line_changes: result is not strictly sorted by line although every pure deletion has zero net offset before it",
                json!({"diff_text": diff, "edit": script.to_json(), "context_lines": context}),
                json!("strictly increasing lines"),
                observed_json(&observed),
            );
        }
        check_db_marker(&diff, script, context, &observed, stats);
    }

    #[test]
    fn cex_Db() {
        let mut cases = 0u64;
        let mut stats = MarkerStats::default();
        for context in [0usize, 1, 3] {
            for n in 0..=4usize {
                for script in all_scripts(n, 2, false) {
                    check_db(&script, context, &mut cases, &mut stats);
                }
            }
            for script in all_scripts(5, 1, false) {
                check_db(&script, context, &mut cases, &mut stats);
            }
            // files without a final newline (old side, new side, both): `\ No newline at end of file`
            // marker lines; unidiff keeps the one that stands between the last removed line of the old
            // file and added lines, and drops those that follow the last real line of a hunk
            for n in 1..=3usize {
                for script in all_scripts(n, 2, true) {
                    if script.old_no_eol || script.new_no_eol {
                        check_db(&script, context, &mut cases, &mut stats);
                    }
                }
            }
            for script in all_scripts(4, 1, true) {
                if script.old_no_eol || script.new_no_eol {
                    check_db(&script, context, &mut cases, &mut stats);
                }
            }
        }
        // A few larger random scripts (seeded from VERIF_SEED), contexts 0..=3.
        let mut rng = Lcg::from_env();
        for _ in 0..1500 {
            let n = 6 + rng.next(7) as usize;
            let script = Script {
                del: (0..n).map(|_| rng.next(3) == 0).collect(),
                ins: (0..=n).map(|_| if rng.next(4) == 0 { 1 + rng.next(3) as usize } else { 0 }).collect(),
                old_no_eol: false,
                new_no_eol: false,
            };
            if script.is_identity() {
                continue;
            }
            check_db(&script, rng.next(4) as usize, &mut cases, &mut stats);
        }
        // Random larger scripts on files without a final newline; the tail of the old file is deleted
        // or re-written more often than not, so that a marker line stays inside the last hunk.
        for _ in 0..1500 {
            let n = 5 + rng.next(6) as usize;
            let mut del: Vec<bool> = (0..n).map(|_| rng.next(3) == 0).collect();
            let mut ins: Vec<usize> = (0..=n).map(|_| if rng.next(4) == 0 { 1 + rng.next(3) as usize } else { 0 }).collect();
            if rng.next(3) != 0 {
                del[n - 1] = true;
                if rng.next(2) == 0 {
                    del[n - 2] = true;
                }
                ins[n] = 1 + rng.next(3) as usize;
            }
            let (old_no_eol, new_no_eol) = [(true, false), (true, true), (false, true)][rng.next(3) as usize];
            let script = Script { del, ins, old_no_eol, new_no_eol };
            if script.new_lines().is_empty() || script.is_identity() {
                continue;
            }
            check_db(&script, rng.next(4) as usize, &mut cases, &mut stats);
        }
        if stats.markers_kept_in_hunk == 0 || stats.markers_dropped == 0 {
            cex_fail(
                "Db",
                "harness inconsistency: the enumeration is meant to contain marker lines that unidiff keeps inside a hunk and marker lines that it drops",
                json!(null),
                json!("both counters > 0"),
                json!({"markers_kept_in_hunk": stats.markers_kept_in_hunk, "markers_dropped": stats.markers_dropped}),
            );
        }
        cex_none(
            "Db",
            cases,
            &format!(
                "git-style diff text at -U0/-U1/-U3 for every edit script (delete any subset of lines, insert 0..=2 lines in any gap) on files of 0..=4 lines, 0..=1 insertions per gap on 5 lines, missing-final-newline variants (old side, new side, both) with 0..=2 insertions per gap on 1..=3 lines and 0..=1 on 4 lines, 1500 random scripts on 6..=12 lines and 1500 random scripts on 5..=10 lines without a final newline at -U0..-U3; marker lines: {} diffs contain `\\ No newline at end of file` lines, {} marker lines stay inside a parsed hunk (each checked to be in the admissible position: no line numbers, directly after a removed line, directly before an added line), {} are dropped by unidiff (they follow the last real line of a hunk); every diff with marker lines is also run with the marker lines deleted and must give the identical result; KF1 carve-out: the line of a pure-deletion entry is checked only when the net line offset before it is zero",
                stats.diffs_with_marker_text, stats.markers_kept_in_hunk, stats.markers_dropped
            ),
        );
    }

    // ----------------------------------------------------------------------------------------
    // Da
    // ----------------------------------------------------------------------------------------

    #[derive(Clone, Copy, Debug, PartialEq)]
    enum Kind {
        Modified,
        Added,
        Deleted,
        RenamedWithEdits,
        PureRename,
        ModeOnly,
        Binary,
        AddedEmpty,
    }

    fn script_pool() -> Vec<Script> {
        let mk = |del: &[bool], ins: &[usize]| Script { del: del.to_vec(), ins: ins.to_vec(), old_no_eol: false, new_no_eol: false };
        vec![
            mk(&[false, true, false], &[0, 0, 0, 0]),          // delete line 2 (zero offset)
            mk(&[false, false, false], &[1, 0, 0, 0]),         // prepend a line
            mk(&[true, false, false, false], &[0, 0, 0, 1, 0]), // replace-less delete + later insert
            mk(&[false, true, true, false], &[0, 1, 0, 0, 2]), // modify line 2, drop line 3, append 2
            mk(&[false, false, true, false, false, true], &[0, 0, 0, 0, 0, 0, 0]), // two deletions, second at offset -1 (KF1 wildcard)
        ]
    }

    /// Git's spelling of a path on the `---`/`+++` lines: a TAB is appended when the name contains a space.
    fn header_path(prefix: &str, path: &str) -> String {
        if path.contains(' ') { format!("{prefix}{path}\t") } else { format!("{prefix}{path}") }
    }

    fn da_file_section(kind: Kind, path: &str, script: &Script, context: usize) -> (String, Option<(String, Vec<Expected>)>) {
        let old_path = format!("was/{path}");
        match kind {
            Kind::Modified => (
                format!(
                    "diff --git a/{path} b/{path}\nindex 1111111..2222222 100644\n{}",
                    file_diff(&header_path("a/", path), &header_path("b/", path), "", script, context)
                ),
                Some((path.to_string(), expected_line_changes(&script.segments()))),
            ),
            Kind::RenamedWithEdits => (
                format!(
                    "diff --git a/{old_path} b/{path}\nsimilarity index 71%\nrename from {old_path}\nrename to {path}\nindex 1111111..2222222 100644\n{}",
                    file_diff(&header_path("a/", &old_path), &header_path("b/", path), "", script, context)
                ),
                Some((path.to_string(), expected_line_changes(&script.segments()))),
            ),
            Kind::Added => {
                let n = 1 + script.del.len() % 3;
                let s = Script { del: vec![], ins: vec![n], old_no_eol: false, new_no_eol: false };
                (
                    format!(
                        "diff --git a/{path} b/{path}\nnew file mode 100644\nindex 0000000..2222222\n{}",
                        file_diff("/dev/null", &header_path("b/", path), "", &s, context)
                    ),
                    Some((path.to_string(), expected_line_changes(&s.segments()))),
                )
            }
            Kind::Deleted => {
                let n = 1 + script.del.len() % 3;
                let s = Script { del: vec![true; n], ins: vec![0; n + 1], old_no_eol: false, new_no_eol: false };
                (
                    format!(
                        "diff --git a/{path} b/{path}\ndeleted file mode 100644\nindex 1111111..0000000\n{}",
                        file_diff(&header_path("a/", path), "/dev/null", "", &s, context)
                    ),
                    None,
                )
            }
            Kind::PureRename => (
                format!("diff --git a/{old_path} b/{path}\nsimilarity index 100%\nrename from {old_path}\nrename to {path}\n"),
                None,
            ),
            Kind::ModeOnly => (
                format!("diff --git a/{path} b/{path}\nold mode 100644\nnew mode 100755\n"),
                None,
            ),
            Kind::Binary => (
                format!("diff --git a/{path} b/{path}\nindex 1111111..2222222 100644\nBinary files a/{path} and b/{path} differ\n"),
                None,
            ),
            Kind::AddedEmpty => (
                format!("diff --git a/{path} b/{path}\nnew file mode 100644\nindex 0000000..e69de29\n"),
                None,
            ),
        }
    }

    fn check_da(files: &[(Kind, &str, &Script)], context: usize, cases: &mut u64) {
        let mut diff = String::new();
        let mut expected: Vec<(String, Vec<Expected>)> = Vec::new();
        for (kind, path, script) in files {
            let (text, exp) = da_file_section(*kind, path, script, context);
            diff.push_str(&text);
            if let Some(e) = exp {
                expected.push(e);
            }
        }
        *cases += 1;
        let input = json!({
            "diff_text": diff,
            "files": files.iter().map(|(k, p, s)| json!({"kind": format!("{k:?}"), "path_in_repository": p, "edit": s.to_json()})).collect::<Vec<_>>(),
            "context_lines": context,
        });
        let observed = match line_changes_from_diff(&diff) {
            Ok(m) => m,
            Err(e) => cex_fail(
                "Da",
                "line_changes_from_diff rejected an ordinary git diff",
                input,
                json!(expected.iter().map(|(p, _)| p.clone()).collect::<Vec<_>>()),
                json!(e.to_string()),
            ),
        };
        let mut observed_keys: Vec<String> = observed.keys().map(|k| k.display().to_string()).collect();
        observed_keys.sort();
        let mut expected_keys: Vec<String> = expected.iter().map(|(p, _)| p.clone()).collect();
        expected_keys.sort();
        if observed_keys != expected_keys {
            cex_fail(
                "Da",
                "line_changes_from_diff: keys must be exactly the target paths of the non-removed files that have hunks, as git wrote them with ONE leading `b/` removed",
                input,
                json!(expected_keys),
                json!(observed_keys),
            );
        }
        for (path, exp) in &expected {
            let obs = &observed[&PathBuf::from(path)];
            if !matches_expected(exp, obs) {
                cex_fail(
                    "Da",
                    "line_changes_from_diff: the value stored for a file is not the line-change list of that file's hunks",
                    input,
                    json!({"path": path, "line_changes": expected_json(exp)}),
                    json!({"path": path, "line_changes": observed_json(obs)}),
                );
            }
        }
    }

    #[test]
    fn cex_Da() {
        let paths = [
            "x.py",
            "b/x.py",
            "b/b/x.py",
            "a/x.py",
            "a/b/x.py",
            "b/a/b/x.py",
            "b",
            "a",
            "src/b/mod.rs",
            "dir with space/x y.txt",
            "b.b/b.py",
            "bb/x.py",
        ];
        let kinds = [
            Kind::Modified,
            Kind::Added,
            Kind::Deleted,
            Kind::RenamedWithEdits,
            Kind::PureRename,
            Kind::ModeOnly,
            Kind::Binary,
            Kind::AddedEmpty,
        ];
        let scripts = script_pool();
        let mut cases = 0u64;
        // One file: every path x kind x script x context.
        for path in paths {
            for kind in kinds {
                for script in &scripts {
                    for context in [0usize, 3] {
                        check_da(&[(kind, path, script)], context, &mut cases);
                    }
                }
            }
        }
        // Two files: every ordered pair of distinct paths x every pair of kinds, script by rotation.
        let mut rot = 0usize;
        for (i, p1) in paths.iter().enumerate() {
            for (j, p2) in paths.iter().enumerate() {
                if i == j {
                    continue;
                }
                for k1 in kinds {
                    for k2 in kinds {
                        rot += 1;
                        let s1 = &scripts[rot % scripts.len()];
                        let s2 = &scripts[(rot / scripts.len()) % scripts.len()];
                        check_da(&[(k1, p1, s1), (k2, p2, s2)], if rot % 2 == 0 { 0 } else { 3 }, &mut cases);
                    }
                }
            }
        }
        // Three files, random picks.
        let mut rng = Lcg::from_env();
        for _ in 0..2000 {
            let mut idx: Vec<usize> = Vec::new();
            while idx.len() < 3 {
                let c = rng.next(paths.len() as u64) as usize;
                if !idx.contains(&c) {
                    idx.push(c);
                }
            }
            let pick_kind = |r: &mut Lcg| kinds[r.next(kinds.len() as u64) as usize];
            let (k1, k2, k3) = (pick_kind(&mut rng), pick_kind(&mut rng), pick_kind(&mut rng));
            let s = |r: &mut Lcg| r.next(scripts.len() as u64) as usize;
            let (s1, s2, s3) = (s(&mut rng), s(&mut rng), s(&mut rng));
            check_da(
                &[(k1, paths[idx[0]], &scripts[s1]), (k2, paths[idx[1]], &scripts[s2]), (k3, paths[idx[2]], &scripts[s3])],
                rng.next(4) as usize,
                &mut cases,
            );
        }
        // Quoted headers (git's C-style quoting of "unusual" names): the key is the path as git meant it,
        // BYTE for byte -- a name need not be valid UTF-8 (C15: "resolved exactly as git wrote them").
        {
            use std::os::unix::ffi::OsStrExt;
            let quoted: [(&str, &[u8]); 8] = [
                ("caf\\303\\251.py", "caf\u{e9}.py".as_bytes()),
                ("caf\\351.py", b"caf\xe9.py"),
                ("n\\200.py", b"n\x80.py"),
                ("a\\tb.py", b"a\tb.py"),
                ("q\\\"uote.py", b"q\"uote.py"),
                ("back\\\\slash.py", b"back\\slash.py"),
                ("b/x\\303\\251.py", "b/x\u{e9}.py".as_bytes()),
                ("d\\351/x.py", b"d\xe9/x.py"),
            ];
            for (escaped, want) in quoted {
                let diff = format!(
                    "diff --git \"a/{escaped}\" \"b/{escaped}\"\nindex 1111111..2222222 100644\n--- \"a/{escaped}\"\n+++ \"b/{escaped}\"\n@@ -1 +1 @@\n-old\n+new\n"
                );
                cases += 1;
                let got: Vec<Vec<u8>> = match line_changes_from_diff(&diff) {
                    Ok(m) => m.keys().map(|k| k.as_os_str().as_bytes().to_vec()).collect(),
                    Err(_) => vec![],
                };
                if got != vec![want.to_vec()] {
                    cex_fail(
                        "Da",
                        "a C-quoted diff path is resolved to exactly the bytes git wrote (octal escapes are bytes, not characters; a name need not be valid UTF-8)",
                        json!({"diff": diff}),
                        json!({"keys_as_bytes": [want]}),
                        json!({"keys_as_bytes": got}),
                    );
                }
            }
        }
        cex_none(
            "Da",
            cases,
            "8 hand-written quoted headers (UTF-8 octal, Latin-1 octal, 0x80, TAB, quote, backslash, b/ inside, non-UTF-8 directory) with the expected key bytes; diffs of 1 file (12 paths incl. `b`, `a`, b/x, b/b/x, a/b/x, b/a/b/x, a path with spaces x 8 file kinds: modified, added, deleted, renamed+edited, pure rename, mode-only, binary, added-empty x 5 edit scripts x -U0/-U3), every ordered pair of paths x kinds, 2000 random 3-file diffs; values compared with the D-b oracle (KF1 carve-out applies); emptied-but-not-deleted files are not generated",
        );
    }

    // ----------------------------------------------------------------------------------------
    // Dc / Dd
    // ----------------------------------------------------------------------------------------

    /// All range lists that are sorted, non-empty and NOT adjacent (r[i].end < r[i+1].start) over 0..=max.
    fn strict_wf_lists(max: usize) -> Vec<Vec<Range<usize>>> {
        fn rec(from: usize, max: usize, cur: &mut Vec<Range<usize>>, out: &mut Vec<Vec<Range<usize>>>) {
            out.push(cur.clone());
            for s in from..max {
                for e in (s + 1)..=max {
                    cur.push(s..e);
                    rec(e + 1, max, cur, out);
                    cur.pop();
                }
            }
        }
        let mut out = Vec::new();
        rec(0, max, &mut Vec::new(), &mut out);
        out
    }

    fn column_set(ranges: &[Range<usize>], width: usize) -> Vec<bool> {
        (0..width).map(|c| ranges.iter().any(|r| r.start <= c && c < r.end)).collect()
    }

    fn is_strictly_wf(ranges: &[Range<usize>]) -> bool {
        ranges.iter().all(|r| r.start < r.end) && ranges.windows(2).all(|w| w[0].end < w[1].start)
    }

    fn ranges_json(r: &[Range<usize>]) -> Value {
        json!(r.iter().map(|r| json!([r.start, r.end])).collect::<Vec<_>>())
    }

    #[test]
    fn cex_Dc() {
        // No ordering precondition: the diff ops do not arrive in the order of their positions in the
        // new line, so `new` may lie anywhere (and may be empty, in which case nothing changes).
        const MAX: usize = 9;
        let mut cases = 0u64;
        for old in strict_wf_lists(MAX) {
            for s in 0..=MAX {
                for e in s..=MAX {
                    let mut ranges = old.clone();
                    push_or_merge_range(&mut ranges, s..e);
                    cases += 1;
                    let mut union = column_set(&old, MAX + 1);
                    for c in s..e {
                        union[c] = true;
                    }
                    // The maximal runs of the union are the unique sorted, non-empty, non-touching
                    // representation - except that a touching new range glues its neighbours:
                    // [0,2) + new [2,4) is one run, which the column set already says.
                    let mut expected: Vec<Range<usize>> = Vec::new();
                    let mut c = 0;
                    while c <= MAX {
                        if union[c] {
                            let st = c;
                            while c <= MAX && union[c] {
                                c += 1;
                            }
                            expected.push(st..c);
                        } else {
                            c += 1;
                        }
                    }
                    if s == e {
                        // An EMPTY new range adds no column: the list must be unchanged (it may touch
                        // two neighbours at a point, but adds nothing between them).
                        expected = old.clone();
                    }
                    if ranges != expected {
                        cex_fail(
                            "Dc",
                            "push_or_merge_range: result must be the sorted, non-empty, non-touching ranges whose union is old-union-new (an empty new range changes nothing)",
                            json!({"ranges_before": ranges_json(&old), "new_range": [s, e]}),
                            ranges_json(&expected),
                            ranges_json(&ranges),
                        );
                    }
                }
            }
        }
        cex_none("Dc", cases, "every sorted non-touching range list over columns 0..=9 x every new range [s,e) with 0 <= s <= e <= 9 (any position, empty ranges included)");
    }

    fn is_subsequence(needle: &[char], hay: &[char]) -> bool {
        let mut i = 0;
        for c in hay {
            if i < needle.len() && needle[i] == *c {
                i += 1;
            }
        }
        i == needle.len()
    }

    fn check_dd(old: &str, new: &str, cases: &mut u64) {
        let ranges = line_diff(old, new);
        *cases += 1;
        let input = json!({"old_line": old, "new_line": new});
        // (a) non-empty, sorted, strictly apart (r[i].end < r[i+1].start): the precondition of B1/B2.
        if !is_strictly_wf(&ranges) {
            cex_fail("Dd", "line_diff: ranges must be non-empty, sorted and strictly apart (r[i].end < r[i+1].start)", input, json!("well-formed ranges"), ranges_json(&ranges));
        }
        // (b) C02: a modified line reports changed ranges unless nothing changed.
        if ranges.is_empty() != (old == new) {
            cex_fail("Dd", "line_diff: result is empty iff the two lines are equal", input, json!({"empty": old == new}), ranges_json(&ranges));
        }
        // (c) byte columns of the new line: every bound is a char boundary of `new`; the only range
        //     allowed to stick out is the one-byte marker of a deletion when `new` is empty.
        let marker_on_empty = new.is_empty() && ranges == vec![0..1];
        if !marker_on_empty && ranges.iter().any(|r| r.end > new.len() || !new.is_char_boundary(r.start) || !new.is_char_boundary(r.end)) {
            cex_fail("Dd", "line_diff: ranges must be byte ranges on char boundaries within the new line", input, json!({"new_line_len_bytes": new.len()}), ranges_json(&ranges));
        }
        // (d) soundness: characters of the new line outside every range are "unchanged", so - in
        //     order - they must all come from the old line. In particular a character that does
        //     not occur in the old line at all is always covered.
        let unchanged: Vec<char> = new
            .char_indices()
            .filter(|(i, _)| !ranges.iter().any(|r| r.start <= *i && *i < r.end))
            .map(|(_, c)| c)
            .collect();
        let old_chars: Vec<char> = old.chars().collect();
        if !is_subsequence(&unchanged, &old_chars) {
            cex_fail(
                "Dd",
                "line_diff: the characters of the new line not covered by any range must form a subsequence of the old line",
                input,
                json!({"uncovered_text_must_be_subsequence_of": old}),
                json!({"ranges": ranges_json(&ranges), "uncovered_text": unchanged.iter().collect::<String>()}),
            );
        }
    }

    #[test]
    fn cex_Dd() {
        fn strings(alphabet: &[char], max_len: usize) -> Vec<String> {
            let mut out = vec![String::new()];
            let mut layer = vec![String::new()];
            for _ in 0..max_len {
                let mut next = Vec::new();
                for s in &layer {
                    for c in alphabet {
                        let mut t = s.clone();
                        t.push(*c);
                        next.push(t);
                    }
                }
                out.extend(next.iter().cloned());
                layer = next;
            }
            out
        }
        let mut cases = 0u64;
        // Regression inputs (found by this harness on the tree before dc11103 / f9a09af).
        for (old, new) in [
            ("abbab", "bbbbbba"),
            ("cacb", "abbaabbb"),
            ("accacbc", "aabbbabbc"),
            ("abab", "bb b"),
            ("caabbbbcac", "bcbccccc"),
            ("cababc", "accaacaccc"),
            ("abbccacb", "bbbbbb"),
            ("# abab", "# bbbb<block keep-sorted>bcc"),
            ("\u{e9}a", "\u{e9}b"),
            ("a\u{e9}", "\u{e9}"),
            ("\u{e9}\u{e9}x", "x\u{e9}"),
        ] {
            check_dd(old, new, &mut cases);
        }
        // Exhaustive: every ordered pair of strings of length 0..=5 over {a, b, e-acute (2 bytes)}.
        let pool = strings(&['a', 'b', '\u{e9}'], 5);
        for old in &pool {
            for new in &pool {
                check_dd(old, new, &mut cases);
            }
        }
        // Random longer lines over {a, b, c, space, e-acute, U+10348 (4 bytes)}, seeded from VERIF_SEED.
        let mut rng = Lcg::from_env();
        let alphabet = ['a', 'b', 'c', ' ', '\u{e9}', '\u{10348}'];
        for _ in 0..60000 {
            let mut make = |r: &mut Lcg| -> String {
                let len = r.next(13) as usize;
                let letters = 2 + r.next(5);
                (0..len).map(|_| alphabet[r.next(letters) as usize]).collect()
            };
            let old = make(&mut rng);
            let new = make(&mut rng);
            check_dd(&old, &new, &mut cases);
        }
        cex_none("Dd", cases, "11 regression pairs; every ordered pair of strings of length 0..=5 over {a,b,U+00E9}; 60000 random pairs of length 0..=12 over {a,b,c,space,U+00E9,U+10348}; checks: non-empty/sorted/strictly apart, empty iff equal, byte ranges on char boundaries within the new line, uncovered characters form a subsequence of the old line");
    }
}
